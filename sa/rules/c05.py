"""C05 - every data row sits under its own group heading on its own page.

R05.1 heading values and in-page boundaries are taken from the page's own [start_row, end_row];
R05.2 three-site agreement of 'spanning rows are shown' / 'page_by columns are removed';
R05.3 the divider literal is one constant at all filter sites and yields neither heading nor budget;
R05.4 sticky hierarchy flag in the level loop of _render_body; R05.5 heading rows are budgeted with
the group's first data row; R05.6 subline heading assigned for every page and rendered unconditionally;
R05.7 boundaries compare consecutive rows column by column and segments are rendered before headings.

The rules interpret the relevant functions / loop iterations over symbolic inputs (LDT below) and judge what
is read, compared, emitted and stored.  A construct that cannot be re-identified is an analysis gap
(ctx.gap), a violation is reported only when a recognised construct contradicts the property.
"""
from __future__ import annotations

import ast
import itertools
from dataclasses import dataclass
from fractions import Fraction
from typing import Any

from ..astmatch import assignments, guard_atoms, guards, mutated, resolve, strip_wrappers
from ..astmatch import leaves as ast_leaves
from ..dtab import DT, NeedAtom, Run, Sym, Unsupported, _Break, _Continue, _OPS, _cmp, enumerate_block
from ..pm import dotted, unparse, walk_no_nested
from ..report import Ctx

DIVIDER = "-----"

# ------------------------------------------------------------------------------------------------------------
# A lenient symbolic interpreter (on top of sa/dtab.DT) with *structured* symbolic values.  Rules run one loop
# iteration / one function over symbolic inputs and then inspect what was read, compared, emitted and stored,
# instead of looking at statement text: temporaries, helper calls, guard clauses vs nesting, loops vs
# comprehensions and statement order (where it does not matter) all disappear in the interpretation.
# ------------------------------------------------------------------------------------------------------------

@dataclass(frozen=True, eq=False)
class Init(Sym):
    """the value a local / parameter has on entry to the analysed block"""


@dataclass(frozen=True, eq=False)
class ElemSym(Sym):
    """a universally quantified element of a symbolic iterable"""
    source: Any = None


@dataclass(frozen=True, eq=False)
class SubSym(Sym):
    base: Any = None
    key: Any = None


@dataclass(frozen=True, eq=False)
class SliceSym(Sym):
    base: Any = None
    lo: Any = None
    hi: Any = None


@dataclass(frozen=True, eq=False)
class CallSym(Sym):
    recv: Any = None
    meth: str = ""
    args: tuple = ()
    kw: tuple = ()


@dataclass(frozen=True, eq=False)
class RangeSym(Sym):
    lo: Any = None
    hi: Any = None


@dataclass(frozen=True, eq=False)
class LinSym(Sym):
    lin: tuple = ()          # sorted ((term path, coefficient), ...), '' = constant
    terms: tuple = ()        # the symbolic values the terms stand for


@dataclass(frozen=True, eq=False)
class CmpSym(Sym):
    """a comparison used as a value (data-frame expression), not as a branch condition"""
    op: Any = None
    left: Any = None
    right: Any = None


@dataclass(frozen=True, eq=False)
class BoolSym(Sym):
    """element-wise | / & of data-frame expressions"""
    op: str = "|"
    operands: tuple = ()


@dataclass(frozen=True, eq=False)
class Carried(Init):
    """a local with a definite value before a symbolic loop, as seen inside an arbitrary iteration"""
    entry: Any = None


_MUTATING = {"append", "extend", "add", "update", "insert", "setdefault", "pop", "remove", "clear", "discard", "sort"}


class GenList(list):
    """result of a comprehension over a SYMBOLIC iterable: the items are the generic element(s); the length is unknown, so slicing, indexing with a
    position, len() and (if nothing filters) truthiness are symbolic, never read off the Python list"""
    sources: tuple = ()
    filtered: bool = False
    origin: Any = None          # the list object that was filled by a loop (identity of recorded append effects)
    ifs: tuple = ()             # filter conditions (syntax) of the comprehension


def path_of(v) -> str:
    if isinstance(v, Sym):
        return v.path
    if isinstance(v, dict):
        return "{" + ", ".join(f"{k}: {path_of(x)}" for k, x in v.items()) + "}"
    if isinstance(v, (list, tuple)):
        return "[" + ", ".join(path_of(x) for x in v) + "]"
    return repr(v) if isinstance(v, str) else str(v)


def has_sym(v, depth: int = 0) -> bool:
    if isinstance(v, Sym):
        return True
    if depth > 4:
        return False
    if isinstance(v, dict):
        return any(has_sym(x, depth + 1) for x in v.values())
    if isinstance(v, (list, tuple)):
        return any(has_sym(x, depth + 1) for x in v)
    return False


def parts(v, depth: int = 0):
    """the symbolic value and everything it was built from"""
    if depth > 12:
        return
    yield v
    if isinstance(v, dict):
        for x in v.values():
            yield from parts(x, depth + 1)
    elif isinstance(v, (list, tuple)):
        for x in v:
            yield from parts(x, depth + 1)
    elif isinstance(v, ElemSym):
        yield from parts(v.source, depth + 1)
    elif isinstance(v, (SubSym,)):
        yield from parts(v.base, depth + 1)
        yield from parts(v.key, depth + 1)
    elif isinstance(v, SliceSym):
        yield from parts(v.base, depth + 1)
        yield from parts(v.lo, depth + 1)
        yield from parts(v.hi, depth + 1)
    elif isinstance(v, CallSym):
        yield from parts(v.recv, depth + 1)
        yield from parts(v.args, depth + 1)
        yield from parts(tuple(x for _k, x in v.kw), depth + 1)
    elif isinstance(v, RangeSym):
        yield from parts(v.lo, depth + 1)
        yield from parts(v.hi, depth + 1)
    elif isinstance(v, LinSym):
        yield from parts(v.terms, depth + 1)
    elif isinstance(v, CmpSym):
        yield from parts(v.left, depth + 1)
        yield from parts(v.right, depth + 1)
    elif isinstance(v, BoolSym):
        yield from parts(v.operands, depth + 1)


def subst(v, old: Sym, new: Sym, depth: int = 0):
    """the term v with the symbol `old` (identified by its path) replaced by `new`; paths are compositional, so they are rewritten textually"""
    import dataclasses
    if depth > 12:
        return v
    if isinstance(v, Sym):
        if v.path == old.path:
            return new
        if old.path not in v.path:
            return v
        ch = {}
        for f in dataclasses.fields(v):
            if f.name in ("path", "cls"):
                continue
            ch[f.name] = subst(getattr(v, f.name), old, new, depth + 1)
        return dataclasses.replace(v, path=v.path.replace(old.path, new.path), **ch)
    if isinstance(v, tuple):
        return tuple(subst(x, old, new, depth + 1) for x in v)
    if isinstance(v, list):
        return [subst(x, old, new, depth + 1) for x in v]
    if isinstance(v, dict):
        return {k: subst(x, old, new, depth + 1) for k, x in v.items()}
    return v


def _member_of(k):
    """path of the iterable S if the symbol k is the generic element of S (or of a slice of S), directly or as the item of enumerate(S)"""
    if isinstance(k, SubSym) and k.key == 1 and isinstance(k.base, ElemSym) and isinstance(k.base.source, CallSym) and k.base.source.meth == "enumerate" \
            and k.base.source.recv is None and k.base.source.args:
        src = k.base.source.args[0]
    elif isinstance(k, ElemSym):
        src = k.source
    else:
        return None
    return path_of(src.base) if isinstance(src, SliceSym) else path_of(src)


def called(v) -> set[str]:
    return {p.meth for p in parts(v) if isinstance(p, CallSym)}


_NUM = (int, float, Fraction)


def lin_of(v) -> dict | None:
    """linear form {term path: coefficient, '': constant} of a numeric symbolic value"""
    if isinstance(v, bool):
        return None
    if isinstance(v, _NUM):
        return {"": v} if v else {}
    if isinstance(v, LinSym):
        return dict(v.lin)
    if isinstance(v, Sym):
        return {v.path: 1}
    return None


def lin_sub(a: dict, b: dict) -> dict:
    out = dict(a)
    for k, c in b.items():
        out[k] = out.get(k, 0) - c
        if out[k] == 0:
            del out[k]
    return out


class LDT(DT):
    def __init__(self, pm, watch=(), skip_loops=(), **kw):
        super().__init__(pm, **kw)
        self.watch = set(watch)
        self.skip_loops = list(skip_loops)
        self.cmp: dict[str, tuple] = {}          # atom key -> (op type | 'is None' | 'truth', left, right)
        self.reads: set[str] = set()             # names whose entry value was read
        self._pre: dict[int, Any] = {}

    # ---- leniency
    def ev(self, n, env):
        if id(n) in self._pre:
            return self._pre.pop(id(n))
        try:
            return super().ev(n, env)
        except (Unsupported, TypeError, AttributeError, ValueError, IndexError, KeyError):
            return Sym("?" + unparse(n)[:80])

    def stmt(self, s, env):
        if isinstance(s, ast.For):
            return self._for(s, env)
        if isinstance(s, ast.AugAssign):
            try:
                self.run_state.effects.append(("call", "aug" + type(s.op).__name__, self.ev(s.target, env), (self.ev(s.value, env),), {}, s))
            except NeedAtom:
                raise
        try:
            return super().stmt(s, env)
        except Unsupported:
            for t in ast.walk(s):
                if isinstance(t, ast.Name) and isinstance(t.ctx, ast.Store):
                    env[t.id] = Sym("?" + t.id)

    def _for(self, s, env):
        if any(s is x for x in self.skip_loops):
            self.run_state.effects.append(("loop", s, dict(env)))
            return
        it = self.concrete(self.ev(s.iter, env))
        if isinstance(it, dict):
            it = list(it)
        self.run_state.effects.append(("iter", s, it))
        if isinstance(it, (list, tuple, range)):
            try:
                for x in it:
                    self.assign(s.target, x, env)
                    try:
                        self.block(s.body, env)
                    except _Continue:
                        continue
            except _Break:
                pass
            return
        elem = self._neighbour_pairs(it) or ElemSym(f"∀{unparse(s.target)}∈{path_of(it)}", None, it)
        stored = {t.id for st in s.body for t in ast.walk(st) if isinstance(t, ast.Name) and isinstance(t.ctx, ast.Store)}
        loaded = {t.id for st in s.body for t in ast.walk(st) if isinstance(t, ast.Name) and isinstance(t.ctx, ast.Load)}
        for nme in sorted((stored & loaded) - {t.id for t in ast.walk(s.target) if isinstance(t, ast.Name)}):
            if nme in env and not isinstance(env[nme], Init):
                env[nme] = Carried(nme, None, env[nme])
        # containers filled by the loop: what they hold when an ARBITRARY iteration starts is unknown.  If the body also reads such a container
        # (not only adds to it) it enters as an unknown symbol; if the body only adds to it, it keeps collecting the generic element and becomes
        # a generic list (unknown length) after the loop
        mutated_here, read_here = set(), set()
        for st in s.body:
            for t in ast.walk(st):
                if isinstance(t, ast.Name) and isinstance(t.ctx, ast.Load):
                    p = getattr(t, "_parent", None)
                    pp = getattr(p, "_parent", None)
                    if isinstance(p, ast.Attribute) and p.value is t and p.attr in _MUTATING and isinstance(pp, ast.Call) and pp.func is p:
                        mutated_here.add(t.id)
                    elif isinstance(p, ast.Subscript) and p.value is t and isinstance(p.ctx, (ast.Store, ast.Del)):
                        mutated_here.add(t.id)
                    else:
                        read_here.add(t.id)
        for nme in sorted(mutated_here & read_here):
            if nme in env and isinstance(env[nme], (list, dict)) and not isinstance(env[nme], GenList):
                env[nme] = Carried(nme, None, env[nme])
        filled = {nme: env[nme] for nme in mutated_here - read_here if isinstance(env.get(nme), list) and not isinstance(env.get(nme), GenList) and not env[nme]}
        self.assign(s.target, elem, env)
        try:
            self.block(s.body, env)
        except (_Continue, _Break):
            pass
        for nme, before in filled.items():
            if env.get(nme) is before:
                g = GenList(before)
                g.sources, g.filtered, g.origin = (it,), False, before
                env[nme] = g

    def _neighbour_pairs(self, it):
        """zip(A, A[1:]) / pairwise(A), optionally under enumerate(..., start=s), where A = [T(r) for r in range(lo, hi)] (nothing filtered): the generic
        element is the pair (T(q), T(q + 1)) for q in range(lo, hi - 1), with index q - lo + s.  None for anything else."""
        start = None
        if isinstance(it, CallSym) and it.meth == "enumerate" and it.recv is None and it.args:
            start = dict(it.kw).get("start", it.args[1] if len(it.args) > 1 else 0)
            it = it.args[0]
        if not isinstance(it, CallSym):
            return None
        if it.meth == "pairwise" and len(it.args) == 1:
            A = it.args[0]
        elif it.meth == "zip" and it.recv is None and len(it.args) == 2 and isinstance(it.args[1], SliceSym) and it.args[1].base is it.args[0] \
                and it.args[1].lo == 1 and it.args[1].hi is None:
            A = it.args[0]
        else:
            return None
        if not (isinstance(A, GenList) and len(A) == 1 and not A.filtered and A.origin is None and len(A.sources) == 1 and isinstance(A.sources[0], RangeSym)):
            return None
        rng = A.sources[0]
        r = next((x for x in parts(A[0]) if isinstance(x, ElemSym) and x.source is rng), None)
        if r is None or lin_of(rng.lo) is None or lin_of(rng.hi) is None or lin_of(start if start is not None else 0) is None:
            return None
        hi1 = self.binop(ast.Sub(), rng.hi, 1, None)
        q = ElemSym(f"∀{r.path[1:].split('∈')[0]}∈range({path_of(rng.lo)}, {path_of(hi1)})", None, RangeSym(f"range({path_of(rng.lo)}, {path_of(hi1)})", None, rng.lo, hi1))
        pair = (subst(A[0], r, q), subst(A[0], r, self.binop(ast.Add(), q, 1, None)))
        if start is None:
            return pair
        return (self.binop(ast.Add(), self.binop(ast.Sub(), q, rng.lo, None), start, None), pair)

    # ---- structured values
    def ev_Name(self, n, env):
        v = super().ev_Name(n, env)
        if isinstance(v, Init):
            self.reads.add(v.path)
        return v

    def assign(self, t, v, env):
        if isinstance(t, (ast.Tuple, ast.List)):
            vv = self.concrete(v)
            if isinstance(vv, Sym):
                for i, a in enumerate(t.elts):
                    self.assign(a, SubSym(f"{vv.path}[{i}]", None, vv, i), env)
                return
        if isinstance(t, ast.Attribute):
            base = self.ev(t.value, env)
            if isinstance(base, Sym):
                self.stores[f"{base.path}.{t.attr}"] = v
                self.run_state.effects.append(("store", base, t.attr, v, t))
                return
        if isinstance(t, ast.Subscript):
            base = self.ev(t.value, env)
            k = self.concrete(self.ev(t.slice, env))
            self.run_state.effects.append(("setitem", base, k, v, t))
            if isinstance(base, dict):
                base[k.path if isinstance(k, Sym) else k] = v
                return
            if isinstance(base, Sym):
                return
        return super().assign(t, v, env)

    def ev_Subscript(self, n, env):
        base = self.concrete(self.ev(n.value, env))
        if isinstance(base, Sym):
            if isinstance(n.slice, ast.Slice):
                lo = self.concrete(self.ev(n.slice.lower, env)) if n.slice.lower else None
                hi = self.concrete(self.ev(n.slice.upper, env)) if n.slice.upper else None
                return SliceSym(f"{base.path}[{'' if lo is None else path_of(lo)}:{'' if hi is None else path_of(hi)}]", None, base, lo, hi)
            k = self.concrete(self.ev(n.slice, env))
            return SubSym(f"{base.path}[{path_of(k)}]", None, base, k)
        if isinstance(base, GenList) and base:
            if isinstance(n.slice, ast.Slice):
                lo = self.concrete(self.ev(n.slice.lower, env)) if n.slice.lower else None
                hi = self.concrete(self.ev(n.slice.upper, env)) if n.slice.upper else None
                return SliceSym(f"{path_of(base)}[{'' if lo is None else path_of(lo)}:{'' if hi is None else path_of(hi)}]", None, base, lo, hi)
            k = self.concrete(self.ev(n.slice, env))
            return SubSym(f"{path_of(base)}[{path_of(k)}]", None, base, k)
        if isinstance(base, dict) and not isinstance(n.slice, ast.Slice):
            k = self.concrete(self.ev(n.slice, env))
            if isinstance(k, SubSym) and k.path not in base and len(base) == 1 and _member_of(k) is not None:
                kk = next(iter(base))
                if isinstance(kk, str) and kk.startswith("∀") and "∈" in kk and kk.split("∈", 1)[1] == _member_of(k):
                    olds = [x for x in parts(base[kk]) if isinstance(x, ElemSym) and x.path == kk]
                    if olds:
                        return subst(base[kk], olds[0], k)
            if isinstance(k, ElemSym) and k.path not in base:
                # the generic element of the same iterable under another loop variable
                same = [kk for kk in base if isinstance(kk, str) and kk.startswith("∀") and "∈" in kk and kk.split("∈", 1)[1] == k.path.split("∈", 1)[1]]
                if len(same) == 1:
                    return base[same[0]]
                # {x: f(x) for x in S}[y] with y an element of a slice of S: f(y)
                if len(base) == 1 and isinstance(k.source, SliceSym):
                    kk = next(iter(base))
                    if isinstance(kk, str) and kk.startswith("∀") and "∈" in kk and kk.split("∈", 1)[1] == path_of(k.source.base):
                        olds = [x for x in parts(base[kk]) if isinstance(x, ElemSym) and x.path == kk]
                        if olds:
                            return subst(base[kk], olds[0], k)
            self._pre[id(n.slice)] = k
        self._pre[id(n.value)] = base
        try:
            return super().ev_Subscript(n, env)
        finally:
            self._pre.pop(id(n.value), None)
            self._pre.pop(id(n.slice), None)

    def binop(self, op, l, r, node):
        l, r = self.concrete(l), self.concrete(r)
        if isinstance(op, (ast.BitOr, ast.BitAnd)):
            sym = "|" if isinstance(op, ast.BitOr) else "&"
            if isinstance(l, bool) and isinstance(r, bool):
                return (l or r) if sym == "|" else (l and r)
            if isinstance(l, Sym) or isinstance(r, Sym):
                ops = []
                for x in (l, r):
                    ops.extend(x.operands if isinstance(x, BoolSym) and x.op == sym else [x])
                return BoolSym("(" + f" {sym} ".join(path_of(x) for x in ops) + ")", None, sym, tuple(ops))
        if isinstance(op, (ast.Add, ast.Sub)) and (isinstance(l, Sym) or isinstance(r, Sym)):
            a, b = lin_of(l), lin_of(r)
            if a is not None and b is not None:
                d = lin_sub(a, {k: -c for k, c in b.items()}) if isinstance(op, ast.Add) else lin_sub(a, b)
                if set(d) <= {""}:
                    return d.get("", 0)
                items = tuple(sorted(d.items()))
                txt = " + ".join((f"{c}" if k == "" else (k if c == 1 else f"{c}*{k}")) for k, c in items)
                raw = {}
                for x in (l, r):
                    if isinstance(x, LinSym):
                        raw.update({t.path: t for t in x.terms})
                    elif isinstance(x, Sym):
                        raw[x.path] = x
                return LinSym(txt, None, items, tuple(raw[k] for k, _c in items if k in raw))
        return super().binop(op, l, r, node)

    def compare(self, op, l, r, node) -> bool:
        l, r = self.concrete(l), self.concrete(r)
        if isinstance(op, (ast.Is, ast.IsNot)) and r is None:
            if isinstance(l, Sym):
                self.cmp[f"{l.path} is None"] = ("is None", l, None)
            return super().compare(op, l, r, node)
        if has_sym(l) or has_sym(r):
            if isinstance(op, (ast.Lt, ast.LtE, ast.Gt, ast.GtE, ast.Eq, ast.NotEq)):
                a, b = lin_of(l), lin_of(r)
                if a is not None and b is not None:
                    d = lin_sub(a, b)
                    if set(d) <= {""}:
                        return _cmp(op, d.get("", 0), 0)
            key = f"{path_of(l)} {_OPS[type(op)]} {path_of(r)}"
            self.cmp[key] = (type(op), l, r)
            return self.atom(key, [True, False])
        return super().compare(op, l, r, node)

    def ev_Compare(self, n, env):
        p = getattr(n, "_parent", None)
        as_cond = isinstance(p, (ast.If, ast.While, ast.IfExp, ast.BoolOp, ast.Assert, ast.comprehension)) or (isinstance(p, ast.UnaryOp) and isinstance(p.op, ast.Not))
        if not as_cond and len(n.ops) == 1 and not isinstance(n.ops[0], (ast.Is, ast.IsNot, ast.In, ast.NotIn)):
            l, r = self.concrete(self.ev(n.left, env)), self.concrete(self.ev(n.comparators[0], env))
            if has_sym(l) or has_sym(r):
                a, b = lin_of(l), lin_of(r)
                if a is not None and b is not None and set(lin_sub(a, b)) <= {""}:
                    return _cmp(n.ops[0], lin_sub(a, b).get("", 0), 0)
                return CmpSym(f"({path_of(l)} {_OPS[type(n.ops[0])]} {path_of(r)})", None, type(n.ops[0]), l, r)
            return _cmp(n.ops[0], l, r)
        return super().ev_Compare(n, env)

    def ev_UnaryOp(self, n, env):
        if isinstance(n.op, ast.Invert):
            v = self.concrete(self.ev(n.operand, env))
            if isinstance(v, Sym):
                return CallSym(f"~{v.path}", None, None, "~", (v,), ())
            if isinstance(v, bool):
                return not v
        return super().ev_UnaryOp(n, env)

    def truth(self, v) -> bool:
        v = self.concrete(v)
        if isinstance(v, CmpSym):
            return self.compare(v.op(), v.left, v.right, None)
        if isinstance(v, Sym):
            self.cmp[f"bool({v.path})"] = ("truth", v, None)
        if isinstance(v, GenList) and v and not v.filtered:
            key = f"bool({path_of(v)})"                   # non-empty iff the iterable is: unknown
            self.cmp[key] = ("truth", v, None)
            return self.atom(key, [True, False])
        return super().truth(v)

    def _comp(self, n, env, kind):
        out_l: list = []
        out_d: dict = {}

        def rec(gi, e):
            if gi == len(n.generators):
                if kind == "dict":
                    k = self.concrete(self.ev(n.key, e))
                    out_d[k.path if isinstance(k, Sym) else k] = self.ev(n.value, e)
                else:
                    out_l.append(self.ev(n.elt, e))
                return
            g = n.generators[gi]
            it = self.concrete(self.ev(g.iter, e))
            if isinstance(it, dict):
                it = list(it)
            items = list(it) if isinstance(it, (list, tuple, range)) else [ElemSym(f"∀{unparse(g.target)}∈{path_of(it)}", None, it)]
            if not isinstance(it, (list, tuple, range)) or isinstance(it, GenList):
                generic.append(it.sources[0] if isinstance(it, GenList) and it.sources else it)
                flt.append(bool(g.ifs) or (isinstance(it, GenList) and it.filtered))
            for x in items:
                e2 = dict(e)
                self.assign(g.target, x, e2)
                if all(self.truth(self.ev(c, e2)) for c in g.ifs):
                    rec(gi + 1, e2)
        generic: list = []
        flt: list = []
        rec(0, dict(env))
        if kind != "dict" and generic:
            res = GenList(out_l)
            res.sources, res.filtered = tuple(generic), any(flt)
            res.ifs = tuple(c for g in n.generators for c in g.ifs)
            return res
        return out_d if kind == "dict" else out_l

    def ev_List(self, n, env):
        if not any(isinstance(e, ast.Starred) for e in n.elts):
            return super().ev_List(n, env)
        out = []
        for e in n.elts:
            if isinstance(e, ast.Starred):
                v = self.concrete(self.ev(e.value, env))
                if isinstance(v, (list, tuple)):
                    out.extend(v)                   # a generic run keeps its generic element(s)
                else:
                    out.append(Sym("?*" + unparse(e.value)[:60]))
            else:
                out.append(self.ev(e, env))
        return out

    def ev_ListComp(self, n, env):
        return self._comp(n, env, "list")

    ev_GeneratorExp = ev_ListComp
    ev_SetComp = ev_ListComp

    def ev_DictComp(self, n, env):
        return self._comp(n, env, "dict")

    def _callsym(self, recv, m, args, kw):
        rp = (recv.path + ".") if isinstance(recv, Sym) else ((path_of(recv) + ".") if recv is not None else "")
        return CallSym(f"{rp}{m}({', '.join(path_of(a) for a in args)})", None, recv, m, tuple(args), tuple(sorted(kw.items(), key=lambda x: x[0])))

    def _args(self, n, env):
        return tuple(self.ev(a.value if isinstance(a, ast.Starred) else a, env) for a in n.args), {k.arg: self.ev(k.value, env) for k in n.keywords if k.arg}

    def ev_Call(self, n, env):
        f = n.func
        if isinstance(f, ast.Attribute):
            m = f.attr
            if m in self.watch:
                base = self.ev(f.value, env)
                args, kw = self._args(n, env)
                ret = self._callsym(base, m, args, kw)
                self.run_state.effects.append(("call", m, base, args, kw, n, ret))
                if isinstance(base, list) and m == "append" and args:
                    base.append(args[0])
                elif isinstance(base, list) and m == "extend" and args:
                    base.extend(args[0]) if isinstance(args[0], (list, tuple)) else base.append(args[0])
                elif isinstance(base, dict) and m == "update" and args and isinstance(args[0], dict):
                    base.update(args[0])
                return ret
            base = self.ev(f.value, env)
            if isinstance(base, str) and m == "join":
                args, kw = self._args(n, env)
                a0 = self.concrete(args[0]) if args else None
                if isinstance(a0, (list, tuple)) and all(isinstance(x, str) for x in a0):
                    return base.join(a0)
                return self._callsym(base, m, args, kw)
            if isinstance(base, Sym) and m not in ("copy", "model_copy", "clone") and not self._resolvable(base, m, env):
                args, kw = self._args(n, env)
                return self._callsym(base, m, args, kw)
            self._pre[id(f.value)] = base
            try:
                return super().ev_Call(n, env)
            finally:
                self._pre.pop(id(f.value), None)
        if isinstance(f, ast.Name):
            nm = f.id
            if nm in self.watch:
                args, kw = self._args(n, env)
                ret = CallSym(f"{nm}(…)#{len(self.run_state.effects)}", nm if nm in self.pm.classes else None, None, nm, args, tuple(sorted(kw.items(), key=lambda x: x[0])))
                self.run_state.effects.append(("call", nm, None, args, kw, n, ret))
                return ret
            if nm in ("str", "int", "float") and len(n.args) == 1 and nm not in env:
                v = self.concrete(self.ev(n.args[0], env))
                if isinstance(v, Sym):
                    return CallSym(f"{nm}({v.path})", None, None, nm, (v,), ())
                return {"int": int, "str": str, "float": float}[nm](v)
            if nm == "len" and len(n.args) == 1 and nm not in env:
                v = self.concrete(self.ev(n.args[0], env))
                if isinstance(v, GenList) and v:
                    return self._callsym(None, "len", (v,), {})
                self._pre[id(n.args[0])] = v
            if nm == "range" and nm not in env:
                vs = [self.concrete(self.ev(a, env)) for a in n.args]
                if all(isinstance(v, int) for v in vs):
                    return range(*vs)
                if len(vs) <= 2:
                    lo, hi = (0, vs[0]) if len(vs) == 1 else vs
                    return RangeSym(f"range({path_of(lo)}, {path_of(hi)})", None, lo, hi)
            if nm == "reduce" and len(n.args) in (2, 3) and nm not in env:
                fv = self.ev(n.args[0], env)
                seq = self.concrete(self.ev(n.args[1], env))
                fname = fv.path.split(".")[-1] if isinstance(fv, Sym) else ""
                if fname in ("or_", "and_", "__or__", "__and__") and isinstance(seq, (list, tuple)):
                    acc = [self.ev(n.args[2], env)] if len(n.args) == 3 else []
                    items = acc + list(seq)
                    out = items[0] if items else None
                    for x in items[1:]:
                        out = self.binop(ast.BitOr() if "or" in fname else ast.BitAnd(), out, x, n)
                    return out
            if nm == "cast" and len(n.args) == 2 and nm not in env:
                return self.ev(n.args[1], env)
            try:
                return super().ev_Call(n, env)
            except Unsupported:
                args, kw = self._args(n, env)
                return self._callsym(None, nm, args, kw)
        return super().ev_Call(n, env)

    def _resolvable(self, base, m, env) -> bool:
        fi = env.get("__fi__")
        bc = self.cls_of(base)
        if base.path == "self" and fi is not None and fi.cls:
            bc = bc or fi.cls
        return bool(bc and self.pm.find_method(bc, m))


def sym_env(fi, extra=()):
    """every parameter and local of the function bound to its symbolic entry value"""
    fn = fi.node
    names = set(assignments(fn)) | set(extra)
    a = fn.args
    params = [x.arg for x in list(a.posonlyargs) + list(a.args) + list(a.kwonlyargs)]

    def make():
        env = {nm: Init(nm) for nm in names}
        for p in params:
            env[p] = Init(p, fi.cls if p == "self" else None)
        env["__fi__"] = fi
        return env
    return make


def run_block(dt: LDT, stmts, env_factory, fi, limit: int = 3000):
    """[(valuation, env_after, effects, outcome)] over every valuation of the atoms consulted"""
    return enumerate_block(dt, stmts, env_factory, fi, limit=limit)


def run_expr(dt: LDT, fn, limit: int = 3000):
    """[(valuation, result)] of fn() over every valuation of the atoms it consults"""
    out, pending, n = [], [dict()], 0
    while pending:
        v = pending.pop()
        n += 1
        if n > limit:
            raise Unsupported("decision table exceeds %d evaluations" % limit)
        dt.val, dt.stores, dt.run_state, dt.depth = v, {}, Run(), 0
        try:
            out.append((v, fn()))
        except NeedAtom as e:
            for x in e.domain:
                pending.append({**v, e.key: x})
    return out


def temps_for(fn, stmts) -> list:
    """synthetic `name = expr` statements for the single-assignment, never-mutated temporaries that the statements use
    but that are defined elsewhere in the function (so a block can be interpreted on its own)"""
    asg = assignments(fn)
    mut = mutated(fn)
    a = fn.args
    params = {x.arg for x in list(a.posonlyargs) + list(a.args) + list(a.kwonlyargs)}
    inside = {id(n) for s in stmts for n in ast.walk(s)}
    out, done = [], set()

    def need(nodes, depth=0):
        for n in nodes:
            for x in ast.walk(n):
                if isinstance(x, ast.Name) and isinstance(x.ctx, ast.Load) and x.id not in done and x.id not in params and x.id not in mut and len(asg.get(x.id, [])) == 1:
                    v = asg[x.id][0]
                    if (isinstance(v, ast.Constant) and isinstance(v.value, str) and v.value.startswith("<")) or id(v) in inside or depth > 6:
                        continue
                    done.add(x.id)
                    need([v], depth + 1)
                    st = ast.Assign(targets=[ast.Name(id=x.id, ctx=ast.Store())], value=v)
                    ast.copy_location(st, v)
                    ast.fix_missing_locations(st)
                    out.append(st)
    need(stmts)
    return out


ABSTRACTION = (
    "Abstract evaluation of the syntax tree (LDT, an extension of the decision-table evaluator sa/dtab.DT): the analysed function body / one loop iteration is "
    "evaluated over symbolic inputs; every parameter and local starts as an uninterpreted symbol, values are structured terms (subscript, slice, call, linear "
    "form, comparison, |/&, element of an iterable), literals of the source are folded; whenever a branch condition has an undetermined truth value the "
    "evaluation forks, so the table of ALL valuations of the consulted conditions is enumerated (no path is sampled, no feasibility pruning, no solver); the verdict "
    "holds for every value of the symbols. Nothing of the analysed package is imported, compiled or executed.")


def declare(ctx: Ctx) -> None:
    """state the abstraction and its bounds once per run (also when single rules are run by another property)"""
    if ABSTRACTION not in ctx.explanations:
        ctx.explain(ABSTRACTION)
    ctx.assume("loops over a symbolic iterable are evaluated for ONE generic iteration: the element is universally quantified and locals that are read and written in the "
               "body enter as arbitrary symbols (an inductive step from an unconstrained entry state); no fixpoint over several iterations is computed; loops over "
               "literal sequences are unrolled; while-loops and other unsupported statements assign fresh unknown symbols to their targets")
    ctx.assume("a comprehension over a symbolic iterable yields a generic list (its items are the generic element, its length is unknown): slices, positions, len() and - "
               "if nothing filters - emptiness of it are symbolic terms / enumerated atoms, never read off a concrete list")
    ctx.assume("a container that a symbolic loop both fills and reads enters the generic iteration as an unknown symbol (its contents after 'some' earlier iterations); a list "
               "that is empty before the loop and only filled by it is a generic list (unknown length) afterwards; {x: f(x) for x in S}[y] with y an element of S or of a "
               "slice of S is the term f(y)")
    ctx.assume("zip(A, A[1:]) / pairwise(A) over A = [T(r) for r in range(lo, hi)], optionally under enumerate(start=s), is iterated as the generic neighbour pair "
               "(T(q), T(q+1)), q in range(lo, hi-1), index q-lo+s (terms obtained by substitution, no positions chosen)")
    ctx.assume("an expression the evaluator does not model (unknown call, attribute of an unknown object) becomes an opaque symbol named by its source text; a rule that "
               "meets an opaque symbol where it needs structure reports an analysis gap, never a verdict")
    ctx.assume("conditions are treated as independent atoms (all combinations enumerated, also infeasible ones): a violation is reported for a path whose condition set "
               "is syntactically possible; tables are cut off at 3000 evaluations (then: analysis gap)")
    ctx.assume("pageby_row ranges over {'column', 'first_row'} and new_page over {True, False} (the declared field types); the three-site table of R05.2 is complete for this domain")
    und = "behaviour of a loop over several iterations beyond the one generic step (e.g. interplay of two consecutive boundaries), and of zero iterations of a symbolic loop"
    if und not in ctx.not_decided:
        ctx.undecided(und)


def cover(ctx: Ctx, name: str, rows) -> None:
    """record table sizes in the evidence: rows = [(valuation, ...)]"""
    atoms = sorted({k for r in rows for k in r[0]})
    ctx.extra.setdefault("abstract_evaluation", {})[name] = {"valuations_enumerated": len(rows), "conditions_consulted": len(atoms), "conditions": [a[:100] for a in atoms][:24]}


def truth_in(v: dict, x):
    """truth value of a symbolic boolean under a valuation, None if undecided"""
    if isinstance(x, bool):
        return x
    if isinstance(x, CmpSym):
        return v.get(f"{path_of(x.left)} {_OPS[x.op]} {path_of(x.right)}")
    if isinstance(x, Sym):
        return v.get(f"bool({x.path})")
    return None


# ------------------------------------------------------------------------------------------------------------
# helpers shared by the rules
# ------------------------------------------------------------------------------------------------------------

def _anc(n, stop):
    p = getattr(n, "_parent", None)
    while p is not None and p is not stop:
        yield p
        p = getattr(p, "_parent", None)


def _cache(ctx: Ctx, key: str, make):
    store = ctx.__dict__.setdefault("_c05_cache", {})
    if key not in store:
        try:
            store[key] = make()
        except Unsupported as e:
            store[key] = e
    return store[key]


def _pos_params(fi) -> list[str]:
    a = fi.node.args
    ps = [x.arg for x in list(a.posonlyargs) + list(a.args)]
    return ps[1:] if fi.cls and not fi.is_static and ps else ps


def _bound(fi, args, kw) -> dict:
    """positional + keyword arguments of a recorded call mapped to the callee's parameter names"""
    out = dict(zip(_pos_params(fi), args))
    out.update(kw)
    return out


def _same(a, b) -> bool:
    return path_of(a) == path_of(b)


def _is_init(v, name: str | None = None) -> bool:
    return isinstance(v, Init) and (name is None or v.path == name)


def _cell(v):
    """(frame, column, row) if the symbolic value is one cell of a data frame, else None"""
    if isinstance(v, SubSym):
        b = v.base
        if isinstance(b, SubSym):                               # df[col][row]
            return b.base, b.key, v.key
        if isinstance(b, CallSym) and b.meth == "row" and b.args:     # df.row(row, named=True)[col]
            return b.recv, v.key, b.args[0]
        if isinstance(v.key, tuple) and len(v.key) == 2:        # df[row, col]
            return v.base, v.key[1], v.key[0]
    if isinstance(v, CallSym) and v.meth == "item" and len(v.args) == 2:      # df.item(row, col)
        return v.recv, v.args[1], v.args[0]
    return None


def _divider_atom(key: str, rec) -> tuple[Any, str, bool] | None:
    """(value compared, literal, True if the atom being True means 'is a divider') for a comparison of a value with a
    dash-only literal"""
    if rec is None or rec[0] not in (ast.Eq, ast.NotEq):
        return None
    op, l, r = rec
    lit, other = (r, l) if isinstance(r, str) else ((l, r) if isinstance(l, str) else (None, None))
    if not isinstance(lit, str) or len(lit) < 3 or set(lit) != {"-"}:
        return None
    return other, lit, op is ast.Eq


def _unstr(v):
    return v.args[0] if isinstance(v, CallSym) and v.meth == "str" and v.recv is None and len(v.args) == 1 else v


# ------------------------------------------------------------------------------------------------------------
# R05.1 / R05.6 (pagination side): what the strategies attach to a page
# ------------------------------------------------------------------------------------------------------------

_PAGINATE_WATCH = {"append", "_get_group_headers", "_detect_group_boundaries", "PageContext", "calculate_row_metadata",
                   "PageBreakCalculator", "RTFPagination"}


def _paginate_leaves(ctx: Ctx, short: str):
    def make():
        fi = ctx.pm.func(short)
        dt = LDT(ctx.pm, watch=_PAGINATE_WATCH)
        leaves = run_block(dt, fi.node.body, sym_env(fi), fi)
        cover(ctx, short + " (whole body)", leaves)
        return fi, dt, leaves
    return _cache(ctx, "paginate:" + short, make)


def _pages_of_leaf(eff):
    """[(page symbol, constructor kwargs, [effects concerning that page])] for the pages appended to the result"""
    ctors = {e[6].path: e for e in eff if e[0] == "call" and e[1] == "PageContext"}
    appended = [e[3][0] for e in eff if e[0] == "call" and e[1] == "append" and e[3] and isinstance(e[3][0], Sym) and e[3][0].path in ctors]
    out = []
    for p in appended:
        stores = {e[2]: e[3] for e in eff if e[0] == "store" and isinstance(e[1], Sym) and e[1].path == p.path}
        out.append((p, dict(ctors[p.path][4]), stores))
    return out


def _page_span(data):
    """(frame, first row, length) of the slice a page's data is"""
    if isinstance(data, CallSym) and data.meth == "slice" and len(data.args) >= 2:
        return data.recv, data.args[0], data.args[1]
    if isinstance(data, SliceSym) and data.lo is not None and data.hi is not None:
        a, b = lin_of(data.hi), lin_of(data.lo)
        return data.base, data.lo, (a, b)
    return None


def r05_1(ctx: Ctx) -> None:
    declare(ctx)
    pm = ctx.pm
    gh = pm.func("PageByStrategy._get_group_headers")
    gb = pm.func("PageByStrategy._detect_group_boundaries")
    for short in ("PageByStrategy.paginate", "SublineStrategy.paginate"):
        got = _paginate_leaves(ctx, short)
        if isinstance(got, Exception):
            ctx.gap("R05.1", f"{short}: could not be interpreted ({got})")
            continue
        fi, dt, leaves = got
        seen_h = seen_b = 0
        for v, env, eff, outcome in leaves:
            for page, kw, stores in _pages_of_leaf(eff):
                span = _page_span(kw.get("data"))
                hcalls = [e for e in eff if e[0] == "call" and e[1] == "_get_group_headers" and isinstance(stores.get("pageby_header_info"), Sym)
                          and stores["pageby_header_info"].path == e[6].path]
                bvals = [x for x in parts(stores.get("group_boundaries")) if isinstance(x, CallSym) and x.meth == "_detect_group_boundaries"]
                bcalls = [e for e in eff if e[0] == "call" and e[1] == "_detect_group_boundaries" and any(e[6].path == x.path for x in bvals)]
                hv = stores.get("pageby_header_info")
                if hv is not None and not hcalls:
                    # heading info is attached on this path, but it is not a _get_group_headers result computed in this
                    # iteration: a value carried over from an earlier page describes that page's first row, not this one's
                    root = hv.path.split("[")[0].split(".")[0] if isinstance(hv, Sym) else ""
                    if isinstance(hv, Carried) or any(isinstance(x, Carried) for x in parts(hv)) or isinstance(env.get(root), Carried):
                        seen_h += 1
                        ctx.violation("R05.1", short, "heading info carried over from an earlier page", fi.where(),
                                      f"{short}: on a path that appends a page, pageby_header_info is `{path_of(hv)[:80]}`, a value kept from an earlier "
                                      "iteration: a group that starts mid-page and continues is headed by the previous page's (stale) group values")
                    elif not (isinstance(hv, (CallSym,)) and hv.meth == "_get_group_headers") and path_of(hv) not in ("None",):
                        ctx.gap("R05.1", f"{short}: pageby_header_info is assigned `{path_of(hv)[:80]}`, not recognisably the group headers of the page's first row")
                if (hcalls or bcalls) and span is None:
                    ctx.gap("R05.1", f"{short}: the rows of a page (PageContext data=...) are not recognisable as a slice of the table")
                    continue
                for e in hcalls:
                    a = _bound(gh, e[3], e[4])
                    seen_h += 1
                    df, row = a.get(_pos_params(gh)[0]), a.get(_pos_params(gh)[2])
                    if not (_same(df, span[0]) and _same(row, span[1])):
                        ctx.violation("R05.1", short, "group headers args " + ",".join(path_of(x)[:60] for x in e[3]), fi.where(e[5]),
                                      f"{short}: heading values are read from `{path_of(df)[:60]}` row `{path_of(row)[:80]}`, but the page's first row is "
                                      f"`{path_of(span[0])[:60]}` row `{path_of(span[1])[:80]}`")
                for e in bcalls:
                    a = _bound(gb, e[3], e[4])
                    seen_b += 1
                    ps = _pos_params(gb)
                    df, s, en = a.get(ps[0]), a.get(ps[2]), a.get(ps[3])
                    ln = span[2]
                    ok_len = None
                    ls, le = lin_of(s), lin_of(en)
                    if isinstance(ln, tuple):
                        ok_len = ls is not None and le is not None and lin_sub(ln[0], ln[1]) == lin_sub(lin_sub(le, ls), {"": -1})
                    elif lin_of(ln) is not None and ls is not None and le is not None:
                        ok_len = lin_of(ln) == lin_sub(lin_sub(le, ls), {"": -1})
                    if not (_same(df, span[0]) and _same(s, span[1])) or ok_len is False:
                        ctx.violation("R05.1", short, "boundaries args " + ",".join(path_of(x)[:60] for x in e[3]), fi.where(e[5]),
                                      f"{short}: in-page boundaries are searched in rows `{path_of(s)[:70]}`..`{path_of(en)[:70]}` of `{path_of(df)[:40]}`, "
                                      "which is not the page's own [first row, last row]")
                    elif ok_len is None:
                        ctx.gap("R05.1", f"{short}: length of the page slice not comparable with the boundary search range")
        ctx.instance("R05.1", fi.where(), f"{short}: {len(leaves)} paths interpreted; heading info attached from the page's first row on {seen_h} path(s), "
                     f"boundaries of the page's own row range on {seen_b} path(s)")
        if not seen_h or not seen_b:
            ctx.gap("R05.1", f"{short}: no path on which page_by heading info and group boundaries are attached to an appended page was re-identified")
    _r05_1_headers(ctx)
    _r05_1_boundaries(ctx)


def _header_leaves(ctx: Ctx):
    def make():
        fi = ctx.pm.func("PageByStrategy._get_group_headers")
        dt = LDT(ctx.pm)
        leaves = run_block(dt, fi.node.body, sym_env(fi), fi)
        cover(ctx, "PageByStrategy._get_group_headers (whole body)", leaves)
        return fi, dt, leaves
    return _cache(ctx, "headers", make)


def _r05_1_headers(ctx: Ctx) -> None:
    got = _header_leaves(ctx)
    if isinstance(got, Exception):
        ctx.gap("R05.1", f"_get_group_headers could not be interpreted ({got})")
        return
    g, dt, leaves = got
    ps = _pos_params(g)
    if len(ps) < 3:
        ctx.gap("R05.1", "_get_group_headers: signature (df, columns, start_row) not recognised")
        return
    p_df, p_cols, p_row = ps[0], ps[1], ps[2]
    n = 0
    for v, env, eff, outcome in leaves:
        ret = outcome[1] if isinstance(outcome, tuple) and outcome[0] == "return" else None
        if not isinstance(ret, dict) or not isinstance(ret.get("group_values"), dict) or not ret["group_values"]:
            continue
        for k, val in ret["group_values"].items():
            n += 1
            c = _cell(val)
            src = None
            for x in parts(val):
                if isinstance(x, ElemSym):
                    src = x.source
                    break
            ctx.instance("R05.1", g.where(), f"_get_group_headers: heading value `{path_of(val)[:80]}` for key `{str(k)[:40]}`")
            if c is not None:
                frame, col, row = c
                if not _is_init(row, p_row) and _is_init(frame, p_df):
                    ctx.violation("R05.1", g.short, "heading source row " + path_of(row)[:60], g.where(),
                                  f"group heading values are read from row `{path_of(row)[:60]}`, not from the page's first row `{p_row}`")
                elif not _is_init(frame, p_df):
                    ctx.gap("R05.1", f"_get_group_headers: frame `{path_of(frame)[:40]}` the heading values are read from is not the frame parameter")
                if isinstance(col, ElemSym) and not _is_init(strip_sym(col.source), p_cols):
                    _order_source(ctx, g, col.source, p_df, p_cols)
                elif not isinstance(col, ElemSym):
                    ctx.gap("R05.1", f"_get_group_headers: column `{path_of(col)[:40]}` of a heading value is not an element of `{p_cols}`")
            elif src is not None and not _is_init(strip_sym(src), p_cols):
                _order_source(ctx, g, src, p_df, p_cols)
            else:
                ctx.gap("R05.1", f"_get_group_headers: heading value `{path_of(val)[:60]}` is not recognisable as a cell of the page's first row")
    if not n:
        ctx.gap("R05.1", "_get_group_headers: no path returning non-empty 'group_values' was re-identified")


def strip_sym(v):
    """peel list()/tuple()/enumerate-free conversions of a symbolic iterable that keep its order"""
    while isinstance(v, CallSym) and v.recv is None and v.meth in ("list", "tuple", "iter") and v.args:
        v = v.args[0]
    return v


def _order_source(ctx: Ctx, g, src, p_df: str, p_cols: str) -> None:
    roots = [x for x in parts(src) if isinstance(x, Init)]
    if any(x.path == p_df for x in roots) and not any(x.path == p_cols for x in roots):
        ctx.violation("R05.1", g.short, "heading source", g.where(),
                      f"the heading levels are enumerated from `{path_of(src)[:70]}` (the frame's own column order), not level by level in `{p_cols}` order: "
                      "outer levels are no longer guaranteed to come before inner ones")
    elif isinstance(src, CallSym) and src.recv is None and src.meth in ("sorted", "reversed", "set", "frozenset") and any(x.path == p_cols for x in roots):
        ctx.violation("R05.1", g.short, "heading source", g.where(), f"the heading levels are enumerated from `{path_of(src)[:70]}`, not in `{p_cols}` declaration order")
    else:
        ctx.gap("R05.1", f"_get_group_headers: source `{path_of(src)[:60]}` of the heading levels not recognised")


def _boundary_leaves(ctx: Ctx):
    def make():
        fi = ctx.pm.func("PageByStrategy._detect_group_boundaries")
        dt = LDT(ctx.pm, watch={"append"})
        leaves = run_block(dt, fi.node.body, sym_env(fi), fi)
        cover(ctx, "PageByStrategy._detect_group_boundaries (whole body, one generic row)", leaves)
        return fi, dt, leaves
    return _cache(ctx, "boundaries", make)


def _boundary_records(leaves, with_env: bool = False):
    """[(valuation, boundary dict, node[, env after])] for every path that reports a boundary"""
    out = []
    for v, env, eff, outcome in leaves:
        for e in eff:
            if e[0] == "call" and e[1] == "append" and e[3] and isinstance(e[3][0], dict) and "page_relative_row" in e[3][0]:
                out.append((v, e[3][0], e[5]) + ((env,) if with_env else ()))
        ret = outcome[1] if isinstance(outcome, tuple) and outcome[0] == "return" else None
        if isinstance(ret, list) and not any(e[0] == "call" and e[1] == "append" for e in eff):
            for d in ret:
                if isinstance(d, dict) and "page_relative_row" in d:
                    out.append((v, d, None) + ((env,) if with_env else ()))
    return out


def _row_cells(x):
    """[(frame, column, linear form of the row)] if x is one cell or a dict / list / tuple of cells of one row per column"""
    if isinstance(x, (dict, list, tuple)) and len(x) > 0:
        vals = list(x.values()) if isinstance(x, dict) else list(x)
    elif _cell(_unstr(x)) is not None and isinstance(_cell(_unstr(x))[1], ElemSym):
        vals = [x]                       # one column, for every column (any(...) / loop over the levels)
    else:
        return None
    out = []
    for val in vals:
        c = _cell(_unstr(val))
        if c is None or lin_of(c[2]) is None:
            return None
        out.append((c[0], c[1], lin_of(c[2])))
    return out


def _carried_row_cells(x, env, elem):
    """a loop-carried local compared in the generic iteration for row r: if the loop re-binds it to the per-column cells of row r (the state after
    the iteration) and it enters the loop as the per-column cells of row lo - 1 (checked separately: its value before the loop), then by induction
    over the range (step 1) it holds the cells of row r - 1 whenever the iteration for row r starts"""
    if not isinstance(x, Carried) or not isinstance(elem, ElemSym) or not isinstance(elem.source, RangeSym):
        return None
    after, entry = _row_cells(env.get(x.path)), _row_cells(x.entry)
    lo = lin_of(elem.source.lo)
    if after is None or entry is None or lo is None or len(after) != len(entry):
        return None

    def col_src(c):
        return path_of(c.source) if isinstance(c, ElemSym) else path_of(c)
    for a, e in zip(after, entry):
        if a[2] != {elem.path: 1} or path_of(a[0]) != path_of(e[0]) or col_src(a[1]) != col_src(e[1]):
            return None
        if e[2] != lin_sub(lo, {"": 1}):
            return ("entry", e[2], lin_sub(lo, {"": 1}))
    return [(a[0], a[1], {elem.path: 1, "": -1}) for a in after]


def _r05_1_boundaries(ctx: Ctx) -> None:
    got = _boundary_leaves(ctx)
    if isinstance(got, Exception):
        ctx.gap("R05.1", f"_detect_group_boundaries could not be interpreted ({got})")
        return
    b, dt, leaves = got
    ps = _pos_params(b)
    if len(ps) < 4:
        ctx.gap("R05.1", "_detect_group_boundaries: signature (df, columns, start_row, end_row) not recognised")
        return
    p_df, p_cols, p_s, p_e = ps[:4]
    recs = _boundary_records(leaves)
    if not recs:
        ctx.gap("R05.1", "_detect_group_boundaries: no path reporting a boundary ({'page_relative_row': ...}) was re-identified")
        return
    for v, d, node in recs:
        rel, ab = lin_of(d.get("page_relative_row")), lin_of(d.get("absolute_row")) if "absolute_row" in d else None
        elem = next((x for x in parts(d.get("page_relative_row")) if isinstance(x, ElemSym)), None)
        ctx.instance("R05.1", b.where(node), f"boundary: page_relative_row = {path_of(d.get('page_relative_row'))[:80]}; absolute_row = {path_of(d.get('absolute_row'))[:80]}")
        if rel is None:
            ctx.gap("R05.1", "_detect_group_boundaries: page_relative_row is not a linear expression")
            continue
        if ab is not None and lin_sub(ab, rel) != {p_s: 1}:
            ctx.violation("R05.1", b.short, f"page_relative_row {path_of(d['page_relative_row'])[:60]}", b.where(node),
                          f"a boundary's page-relative row is not its absolute row - {p_s} (absolute_row - page_relative_row = {lin_sub(ab, rel)})")
        # rows examined: the new group's first row runs over start_row + 1 .. end_row
        if elem is None or not isinstance(elem.source, RangeSym):
            if "concat_str" not in _concat_evidence(dt, v, d):
                ctx.gap("R05.1", f"_detect_group_boundaries: rows examined (`{path_of(elem.source)[:60] if elem is not None else '?'}`) are not a range over the page")
            continue
        k = dict(rel)
        if k.pop(elem.path, None) != 1:
            ctx.gap("R05.1", "_detect_group_boundaries: page_relative_row is not (row index + constant)")
            continue
        lo, hi = lin_of(elem.source.lo), lin_of(elem.source.hi)
        if lo is None or hi is None:
            ctx.gap("R05.1", "_detect_group_boundaries: range bounds are not linear")
            continue
        first = lin_sub(lo, {kk: -c for kk, c in k.items()})          # first page-relative row reported
        last = lin_sub(lin_sub(hi, {kk: -c for kk, c in k.items()}), {"": 1})
        if first != {"": 1} or last != lin_sub({p_e: 1}, {p_s: 1}):
            ctx.violation("R05.1", b.short, "boundary range", b.where(node),
                          f"boundaries are reported for page-relative rows {first}..{last}; every row 1..{p_e}-{p_s} of the page must be compared with the row above it")
        # extra conditions on the row index must be implied by the range
        for key, val in v.items():
            rec = dt.cmp.get(key)
            if rec is None or rec[0] not in (ast.Lt, ast.LtE, ast.Gt, ast.GtE):
                continue
            a, c = lin_of(rec[1]), lin_of(rec[2])
            if a is None or c is None:
                continue
            diff = lin_sub(a, c)                     # diff OP 0
            coef = diff.get(elem.path)
            if not coef:
                continue
            op = rec[0]
            if not val:
                op = {ast.Lt: ast.GtE, ast.LtE: ast.Gt, ast.Gt: ast.LtE, ast.GtE: ast.Lt}[op]
            upper = op in (ast.Lt, ast.LtE)
            at_max = (coef > 0) == upper             # the binding end of the range
            ext = lin_sub(hi, {"": 1}) if at_max else lo
            rest = {kk: cc for kk, cc in diff.items() if kk != elem.path}
            worst = lin_sub(rest, {kk: -coef * cc for kk, cc in ext.items()})
            if set(worst) <= {""}:
                if not _cmp(op(), worst.get("", 0), 0):
                    ctx.violation("R05.1", b.short, "boundary range restricted by " + key[:60], b.where(node),
                                  f"the condition `{key[:80]}` excludes rows of the page from boundary detection")
            else:
                ctx.gap("R05.1", f"_detect_group_boundaries: condition `{key[:60]}` on the row index could not be shown to hold for the whole range")
        # heading values of a boundary: the new group's first row
        gv = d.get("group_values")
        if isinstance(gv, dict) and gv and ab is not None:
            for kk, cellv in gv.items():
                c = _cell(cellv)
                if c is None:
                    ctx.gap("R05.1", f"_detect_group_boundaries: heading value `{path_of(cellv)[:60]}` of a boundary is not recognisable as a cell")
                elif lin_of(c[2]) != ab and _is_init(c[0], p_df):
                    ctx.violation("R05.1", b.short, "boundary values row " + path_of(c[2])[:50], b.where(node),
                                  f"the heading values of a boundary are read from row `{path_of(c[2])[:60]}`, not from the new group's first row `{path_of(d.get('absolute_row'))[:60]}`")


def _concat_evidence(dt: LDT, v: dict, d: dict) -> set[str]:
    """names of string-concatenating calls the decision 'a boundary is reported here' depends on"""
    ev: set[str] = set()
    vals = [d.get("page_relative_row"), d.get("absolute_row")]
    for key in v:
        rec = dt.cmp.get(key)
        if rec is not None:
            vals += [rec[1], rec[2]]
    for x in vals:
        ev |= called(x) & {"concat_str", "join", "format"}
    return ev


# ------------------------------------------------------------------------------------------------------------
# R05.7 / R05.4: one boundary of PageRenderer._render_body, one level of its heading loop
# ------------------------------------------------------------------------------------------------------------

_BODY_WATCH = {"_encode", "encode_spanning_row", "update", "extend", "append"}


def _has_call(node: ast.AST, name: str) -> bool:
    return any(isinstance(c, ast.Call) and dotted(c.func).split(".")[-1] == name for c in ast.walk(node))


def _body_analysis(ctx: Ctx):
    """interpret one iteration of the boundary loop (level loop skipped) and one iteration of the level loop"""
    def make():
        pm = ctx.pm
        fi = pm.func("PageRenderer._render_body")
        fn = fi.node
        loops = [n for n in walk_no_nested(fn) if isinstance(n, ast.For) and any(x.endswith("group_boundaries") for x in ast_leaves(resolve(n.iter, fn)))]
        if len(loops) != 1:
            return {"gap": f"_render_body: {len(loops)} loops over the page's group_boundaries (1 expected)"}
        lp = loops[0]
        levels = [n for n in ast.walk(lp) if isinstance(n, ast.For) and n is not lp and _has_call(n, "encode_spanning_row")]
        levels = [n for n in levels if not any(m is not n and any(x is n for x in ast.walk(m)) for m in levels)]      # outermost
        if len(levels) != 1:
            return {"gap": f"_render_body: {len(levels)} loops emitting spanning rows inside the boundary loop (1 expected)", "fi": fi, "lp": lp}
        level = levels[0]
        dt = LDT(pm, watch=_BODY_WATCH, skip_loops=[level])
        outer = run_block(dt, temps_for(fn, lp.body) + lp.body, sym_env(fi), fi)
        cover(ctx, "PageRenderer._render_body (one boundary iteration from a symbolic entry state, level loop abstracted)", outer)
        snaps = [e[2] for v, env, eff, out in outer for e in eff if e[0] == "loop"]
        res = {"fi": fi, "lp": lp, "level": level, "dt": dt, "outer": outer, "snaps": snaps}
        body_names = set()
        for s in level.body:
            for t in ast.walk(s):
                if isinstance(t, ast.Name) and isinstance(t.ctx, ast.Store):
                    body_names.add(t.id)
        res["entries"] = [{n: s.get(n) for n in body_names if n in s} for s in snaps]
        for snap in snaps:
            entry = {n: snap[n] for n in body_names if n in snap}

            def env0(snap=snap, entry=entry):
                e = dict(snap)
                for n in entry:
                    e[n] = Init(n)
                return e
            dt2 = LDT(pm, watch=_BODY_WATCH)
            inner = run_block(dt2, [level], env0, fi)
            if any(e[0] == "iter" and e[1] is level and not (isinstance(e[2], (list, tuple)) and not e[2]) for v, env, eff, out in inner for e in eff):
                res.update({"dt2": dt2, "inner": inner, "entry": entry})
                cover(ctx, "PageRenderer._render_body (one level of the heading loop, carried locals symbolic)", inner)
                break
        return res
    return _cache(ctx, "body", make)


def _rel_row(v) -> bool:
    return isinstance(v, SubSym) and v.key == "page_relative_row"


def r05_7(ctx: Ctx) -> None:
    declare(ctx)
    _r05_7_compare(ctx)
    a = _body_analysis(ctx)
    if isinstance(a, Exception):
        ctx.gap("R05.7", f"_render_body could not be interpreted ({a})")
        return
    if "outer" not in a:
        ctx.gap("R05.7", a["gap"])
        if "lp" not in a:
            return
        # the heading loop was not re-identified: analyse the boundary iteration without skipping anything
        fi, lp = a["fi"], a["lp"]
        try:
            dt = LDT(ctx.pm, watch=_BODY_WATCH)
            outer = run_block(dt, temps_for(fi.node, lp.body) + lp.body, sym_env(fi), fi)
        except Unsupported as e:
            ctx.gap("R05.7", f"_render_body boundary loop could not be interpreted ({e})")
            return
    else:
        fi, lp, dt, outer = a["fi"], a["lp"], a["dt"], a["outer"]
    rb = fi
    # the cursor: a loop-carried local that takes the boundary's page-relative row
    cands = set()
    for v, env, eff, out in outer:
        for n, val in env.items():
            if n in dt.reads and _rel_row(val):
                cands.add(n)
    if len(cands) != 1:
        ctx.gap("R05.7", f"_render_body: the row cursor of the boundary loop was not re-identified (candidates {sorted(cands)})")
        return
    cur = cands.pop()
    n_seg = 0
    for v, env, eff, out in outer:
        after = env.get(cur)
        segs = [(i, e) for i, e in enumerate(eff) if e[0] == "call" and e[1] == "_encode"]
        heads = [i for i, e in enumerate(eff) if e[0] == "loop" or (e[0] == "call" and e[1] == "encode_spanning_row")]
        cond = ", ".join(f"{k[:50]}={x}" for k, x in sorted(v.items()))
        if not _rel_row(after):
            ctx.violation("R05.7", rb.short, "boundary loop cursor not advanced", rb.where(lp),
                          f"on the path [{cond}] through one boundary the cursor `{cur}` is left at `{path_of(after)[:50]}` instead of the boundary's row: "
                          "the rows before the boundary are rendered again with the next segment")
        for i, e in segs:
            n_seg += 1
            seg = e[3][0] if e[3] else None
            lo = hi = None
            if isinstance(seg, SliceSym):
                lo, hi = seg.lo, seg.hi
            elif isinstance(seg, CallSym) and seg.meth == "slice" and len(seg.args) == 2 and lin_of(seg.args[0]) is not None and lin_of(seg.args[1]) is not None:
                lo = seg.args[0]                                                   # frame.slice(offset, length)
                hi = lin_sub(lin_of(seg.args[0]), {k: -c for k, c in lin_of(seg.args[1]).items()})
            if lo is not None or hi is not None:
                hi_ok = _rel_row(hi) or (isinstance(hi, dict) and len(hi) == 1 and list(hi.values()) == [1] and "page_relative_row" in next(iter(hi)))
                if not (_is_init(lo, cur) and hi_ok):
                    ctx.violation("R05.7", rb.short, f"boundary segment {path_of(seg)[:70]}", rb.where(e[5]),
                                  f"the rows rendered before a boundary are `{seg.path[:80]}`; they must run from the cursor `{cur}` (as it was when the boundary is reached) "
                                  "up to the boundary's page-relative row")
            else:
                ctx.gap("R05.7", f"_render_body: rows `{path_of(seg)[:60]}` rendered at a boundary are not a slice of the page")
            if heads and min(heads) < i:
                ctx.violation("R05.7", rb.short, "boundary loop order headings before segment", rb.where(e[5]),
                              "at a boundary the headings of the new group are emitted before the rows that precede the boundary")
    ctx.instance("R05.7", rb.where(lp), f"one boundary iteration: {len(outer)} paths, cursor `{cur}` advanced to the boundary row on every path, "
                 f"{n_seg} segment emission(s) from the old cursor, before the headings")
    if not n_seg:
        ctx.gap("R05.7", "_render_body: no path renders the rows before a boundary (page_attrs._encode of a slice)")


def _r05_7_compare(ctx: Ctx) -> None:
    got = _boundary_leaves(ctx)
    if isinstance(got, Exception):
        ctx.gap("R05.7", f"_detect_group_boundaries could not be interpreted ({got})")
        return
    b, dt, leaves = got
    recs = _boundary_records(leaves, with_env=True)
    if not recs:
        ctx.gap("R05.7", "_detect_group_boundaries: no path reporting a boundary was re-identified")
        return
    n_ok = 0
    for v, d, node, env in recs:
        ab = lin_of(d.get("absolute_row")) if "absolute_row" in d else None
        if ab is None and lin_of(d.get("page_relative_row")) is not None:
            ps = _pos_params(b)
            ab = lin_sub(lin_of(d["page_relative_row"]), {ps[2]: -1}) if len(ps) > 2 else None
        elem = next((x for x in parts(d.get("page_relative_row")) if isinstance(x, ElemSym)), None)
        found = False
        for key, val in v.items():
            rec = dt.cmp.get(key)
            if rec is None or rec[0] not in (ast.Eq, ast.NotEq):
                continue
            l, r = rec[1], rec[2]
            carried = isinstance(l, Carried) or isinstance(r, Carried)
            cl = _carried_row_cells(l, env, elem) if isinstance(l, Carried) else _row_cells(l)
            cr = _carried_row_cells(r, env, elem) if isinstance(r, Carried) else _row_cells(r)
            bad = next((x for x in (cl, cr) if isinstance(x, tuple) and x and x[0] == "entry"), None)
            if bad is not None:
                found = True
                ctx.violation("R05.7", b.short, "boundary comparison initial row", b.where(node),
                              f"the previous row's group values are carried through the loop, but before the loop they are read from row {bad[1]} instead of {bad[2]} "
                              "(the row directly above the first row examined): the first comparison does not compare consecutive rows")
                continue
            if cl is None or cr is None or len(cl) != len(cr) or (isinstance(l, (dict, list, tuple)) and isinstance(r, (dict, list, tuple)) and type(l) is not type(r)):
                continue
            found = True
            differ = val if rec[0] is ast.NotEq else not val
            rows = sorted([tuple(sorted(c[2].items())) for c in (cl[0], cr[0])], key=str)
            ctx.instance("R05.7", b.where(node), f"boundary reported when per-column values of rows `{cl[0][2]}` and `{cr[0][2]}` differ: {differ}"
                         + (" (previous row's values carried by the loop: entry value and re-binding checked)" if carried else ""))
            if not differ:
                ctx.violation("R05.7", b.short, "boundary comparison polarity", b.where(node), "a boundary is reported when consecutive rows have EQUAL group values")
            elif ab is not None:
                want = sorted([tuple(sorted(ab.items())), tuple(sorted(lin_sub(ab, {"": 1}).items()))], key=str)
                if rows != want:
                    ctx.violation("R05.7", b.short, "boundary comparison rows", b.where(node),
                                  f"the rows compared (`{cl[0][2]}`, `{cr[0][2]}`) are not the boundary row and the row directly above it")
                else:
                    n_ok += 1
        if not found:
            ev = _concat_evidence(dt, v, d)
            if ev:
                ctx.violation("R05.7", b.short, "boundary comparison", b.where(node),
                              f"group boundaries are found by comparing one concatenated key per row ({', '.join(sorted(ev))}) instead of comparing consecutive rows "
                              "column by column: different value tuples can give the same key ('1'+'11' = '11'+'1'), so a boundary is missed")
            else:
                ctx.gap("R05.7", "_detect_group_boundaries: the comparison that decides a boundary was not re-identified")
    if n_ok:
        ctx.instance("R05.7", b.where(), f"boundary detection compares per-column values of consecutive rows on {n_ok} path(s)")


def r05_4(ctx: Ctx) -> None:
    declare(ctx)
    a = _body_analysis(ctx)
    if isinstance(a, Exception):
        ctx.gap("R05.4", f"_render_body could not be interpreted ({a})")
    elif "inner" not in a:
        ctx.gap("R05.4", a.get("gap") or "_render_body: the heading loop is not reached on any path through a boundary")
    else:
        _level_loop(ctx, a)
    _page_top(ctx)


def _level_loop(ctx: Ctx, a: dict) -> None:
    fi, lp, level, dt2, inner, outer = a["fi"], a["lp"], a["level"], a["dt2"], a["inner"], a["outer"]
    fn = fi.node
    # level order
    it = resolve(level.iter, fn)
    if isinstance(it, ast.Call) and dotted(it.func) == "enumerate" and it.args:
        it = it.args[0]
    if isinstance(it, ast.BoolOp) and isinstance(it.op, ast.Or):
        it = it.values[0]
    inner_it = strip_wrappers(it)
    plain = strip_wrappers(it, names=("list", "tuple", "iter"))
    src = ast_leaves(inner_it)
    if any(x.endswith(".page_by") for x in src):
        if plain is not inner_it and not isinstance(plain, (ast.Attribute, ast.Name)):
            ctx.violation("R05.4", fi.short, "level order " + unparse(it)[:60], fi.where(level), "levels are not visited in page_by declaration order (outer before inner)")
    else:
        ctx.gap("R05.4", f"_render_body: the heading loop iterates `{unparse(it)[:60]}`, not recognisably the page_by levels in declaration order")
    # classify the atoms of one level iteration
    outer_targets = {t.id for t in ast.walk(lp.target) if isinstance(t, ast.Name)}

    def mentions_level(x) -> bool:
        return any(isinstance(p, ElemSym) and p.path.startswith("∀" + unparse(level.target)) for p in parts(x))
    flags = sorted({rec[1].path for k, rec in dt2.cmp.items() if rec[0] == "truth" and isinstance(rec[1], Init) and rec[1].path in a["entry"]})
    n_rows = 0
    new_side = old_side = None
    emitted_any = False
    for v, env, eff, out in inner:
        iters = [e for e in eff if e[0] == "iter" and e[1] is level]
        if iters and isinstance(iters[0][2], (list, tuple)) and not iters[0][2]:
            continue                                   # no levels at all
        emits = [e for e in eff if e[0] == "call" and e[1] == "encode_spanning_row"]
        emitted_any = emitted_any or bool(emits)
        none_val = changed = None
        for key, val in v.items():
            rec = dt2.cmp.get(key)
            if rec is None:
                continue
            if rec[0] == "is None" and mentions_level(rec[1]):
                none_val = val
            elif rec[0] in (ast.Eq, ast.NotEq) and mentions_level(rec[1]) and mentions_level(rec[2]) and _divider_atom(key, rec) is None:
                changed = val if rec[0] is ast.NotEq else not val
                sides = [rec[1], rec[2]]
                ns = [s for s in sides if any(isinstance(p, Init) and p.path in outer_targets for p in parts(s))]
                if len(ns) == 1:
                    new_side = ns[0]
                    old_side = sides[1] if sides[0] is ns[0] else sides[0]
        if not flags:
            continue
        if len(flags) > 1:
            continue
        f = flags[0]
        F = v.get(f"bool({f})")
        fo = env.get(f)
        flag_out = F if _is_init(fo, f) else truth_in(v, fo)
        n_rows += 1
        if none_val:
            if emits:
                ctx.violation("R05.4", fi.short, "heading for a missing value", fi.where(level), "a level whose value is missing at the boundary still gets a heading row")
            continue
        if F is None:
            Fs = [False, True]
        else:
            Fs = [F]
        chs = [changed] if changed is not None else [False, True]
        exp = {(c or x) for c in chs for x in Fs}
        if len(exp) > 1:
            # the decision did not consult the change of this level or the carried flag although the outcome depends on it
            ctx.violation("R05.4", fi.short, "level guard not (changed or force_render)", fi.where(level),
                          f"on the path [{_fmt(v)}] a level's heading is {'emitted' if emits else 'skipped'} without looking at "
                          f"{'whether its value changed' if changed is None else 'whether a higher level changed'}")
            continue
        want = exp.pop()
        if bool(emits) != want:
            ctx.violation("R05.4", fi.short, "level guard not (changed or force_render)", fi.where(level),
                          f"a level's heading is {'emitted' if emits else 'not emitted'} when changed={changed} and higher-level-changed={F}; "
                          "it must be emitted exactly when its value changed or a higher level changed")
        if flag_out is None:
            ctx.gap("R05.4", f"_render_body: value `{path_of(fo)[:40]}` of the carried flag `{f}` after a level is not a decided boolean")
        elif flag_out != want:
            ctx.violation("R05.4", fi.short, "sticky flag", fi.where(level),
                          f"after a level with changed={changed} and higher-level-changed={F} the carried flag `{f}` is {flag_out}; it must stay True once a level changed "
                          "(otherwise inner headings are skipped when an outer level changes but inner values repeat)")
    if not flags:
        consulted = " ".join(k for v, env, eff, out in inner for k in v)
        carried = {n for n in dt2.reads if n in a["entry"]}
        if emitted_any and not carried and "any(" not in consulted and "[:" not in consulted:
            ctx.violation("R05.4", fi.short, "level loop", fi.where(level),
                          "the heading loop carries no state from one level to the next (and consults no aggregate over the higher levels): whether a level's heading is "
                          "emitted cannot depend on a change of every higher level, so inner headings are skipped when an outer level changes but inner values repeat")
        else:
            ctx.gap("R05.4", "_render_body: how the heading loop remembers that a higher level changed was not re-identified")
    elif len(flags) > 1:
        ctx.gap("R05.4", f"_render_body: several carried flags {flags} in the heading loop")
    else:
        f = flags[0]
        for ent in a["entries"]:
            e0 = ent.get(f)
            if e0 is False:
                continue
            if isinstance(e0, Init) or e0 is True:
                ctx.violation("R05.4", fi.short, "sticky flag", fi.where(level),
                              f"the carried flag `{f}` is not reset to False when a boundary is reached (it enters the level loop as `{path_of(e0)}`)")
            else:
                ctx.gap("R05.4", f"_render_body: entry value `{path_of(e0)[:40]}` of the carried flag `{f}` not decided")
        ctx.instance("R05.4", fi.where(level), f"level loop: {n_rows} decision rows over (value missing, value changed, flag `{f}`); heading emitted <=> changed or flag; flag' = changed or flag")
    # heading text
    for v, env, eff, out in inner:
        for e in eff:
            if e[0] == "call" and e[1] == "encode_spanning_row":
                txt = e[4].get("text", e[3][0] if e[3] else None)
                t = _unstr(txt)
                if new_side is not None and _same(t, _unstr(new_side)):
                    continue
                if old_side is not None and _same(t, _unstr(old_side)):
                    ctx.violation("R05.4", fi.short, "heading text", fi.where(e[5]), "the heading shows the previous value of the level, not the new one")
                elif isinstance(t, ElemSym):
                    ctx.violation("R05.4", fi.short, "heading text", fi.where(e[5]), "the heading shows the level's column name, not its new value")
                elif new_side is None:
                    ctx.gap("R05.4", "_render_body: the new value of a level was not re-identified; heading text not checked")
                else:
                    ctx.gap("R05.4", f"_render_body: heading text `{path_of(txt)[:60]}` is not recognisably the new value `{path_of(new_side)[:60]}`")
    # remembered values: updated after the level loop, initialised from the page-top heading values
    if old_side is not None:
        elem_inits = {p.path for x in parts(old_side) if isinstance(x, ElemSym) for p in parts(x) if isinstance(p, Init)}
        roots = sorted({p.path for p in parts(old_side) if isinstance(p, Init)} - elem_inits - outer_targets)
        if len(roots) == 1:
            root = roots[0]
            for v, env, eff, out in outer:
                li = [i for i, e in enumerate(eff) if e[0] == "loop"]
                if not li:
                    continue
                upd = [i for i, e in enumerate(eff) if (e[0] == "call" and e[1] in ("update", "augBitOr") and _is_init(e[2], root)) or (e[0] == "setitem" and _is_init(e[1], root))]
                rebound = not _is_init(env.get(root), root)
                if not upd and not rebound:
                    ctx.violation("R05.4", fi.short, "state update", fi.where(lp), f"the remembered group values `{root}` are not updated after a boundary")
                elif upd and min(upd) < li[0]:
                    ctx.violation("R05.4", fi.short, "state update before headings", fi.where(lp), f"`{root}` is updated before the levels are compared with it: no change is ever seen")
            vals = assignments(fn).get(root, [])
            if any("pageby_header_info" in unparse(x) for x in vals):
                ctx.instance("R05.4", fi.where(), f"remembered values `{root}` start from the page-top heading values and are updated after each boundary")
            elif vals and all(isinstance(x, ast.Dict) and not x.keys or (isinstance(x, ast.Call) and dotted(x.func) == "dict" and not x.args) for x in vals):
                ctx.violation("R05.4", fi.short, "state init", fi.where(), "the remembered group values do not start from the page-top heading values")
            else:
                ctx.gap("R05.4", f"_render_body: initial value of the remembered group values `{root}` not recognised")
        else:
            ctx.gap("R05.4", f"_render_body: the remembered group values were not re-identified (roots {roots})")
    elif flags:
        ctx.gap("R05.4", "_render_body: the comparison 'value of this level changed' was not re-identified")


def _fmt(v: dict) -> str:
    return ", ".join(f"{k[:40]}={x}" for k, x in sorted(v.items()))


def _page_top(ctx: Ctx) -> None:
    pm = ctx.pm
    r = pm.func("PageRenderer.render")
    loops = [n for n in walk_no_nested(r.node) if isinstance(n, ast.For) and _has_call(n, "encode_spanning_row")]
    loops = [n for n in loops if not any(m is not n and any(x is n for x in ast.walk(m)) for m in loops)]
    if len(loops) != 1:
        ctx.gap("R05.4", f"render: {len(loops)} loops emitting page-top spanning rows (1 expected)")
        return
    lp = loops[0]
    try:
        dt = LDT(pm, watch=_BODY_WATCH)
        leaves = run_block(dt, temps_for(r.node, [lp]) + [lp], sym_env(r), r)
        cover(ctx, "PageRenderer.render (page-top heading loop, one generic level)", leaves)
    except Unsupported as e:
        ctx.gap("R05.4", f"render: page-top heading loop could not be interpreted ({e})")
        return
    n = 0
    for v, env, eff, out in leaves:
        for e in eff:
            if not (e[0] == "call" and e[1] == "encode_spanning_row"):
                continue
            n += 1
            txt = e[4].get("text", e[3][0] if e[3] else None)
            t = _unstr(txt)
            elem = next((p for p in parts(t) if isinstance(p, ElemSym)), None)
            srcs = [p for p in parts(elem.source)] if elem is not None else []
            from_info = any(isinstance(p, SubSym) and p.key == "group_values" and "pageby_header_info" in p.path for p in srcs)
            ctx.instance("R05.4", r.where(e[5]), f"page-top heading text `{path_of(txt)[:70]}`")
            # the heading is LOOKED UP in the page's group values by a key that runs over some other sequence: that sequence fixes the order of the levels
            look = None
            if isinstance(t, CallSym) and t.meth == "get" and t.args:
                look = (t.recv, t.args[0])
            elif isinstance(t, SubSym):
                look = (t.base, t.key)
            if look is not None and isinstance(look[0], SubSym) and look[0].key == "group_values" and "pageby_header_info" in look[0].path and not from_info:
                k = look[1]
                src = None
                if isinstance(k, ElemSym):
                    src = k.source
                elif isinstance(k, SubSym) and k.key == 1 and isinstance(k.base, ElemSym) and isinstance(k.base.source, CallSym) and k.base.source.meth == "enumerate" and k.base.source.args:
                    src = k.base.source.args[0]
                sp = path_of(strip_sym(src)) if src is not None else ""
                if src is None:
                    ctx.gap("R05.4", f"render: key `{path_of(k)[:50]}` of the page-top heading lookup is not an element of a sequence")
                elif sp.endswith(".page_by") or sp == look[0].path:
                    pass                                   # page_by declaration order / the group values' own order
                elif sp.endswith(".columns") or (isinstance(src, CallSym) and src.recv is None and src.meth in ("sorted", "reversed", "set", "frozenset")):
                    ctx.violation("R05.4", r.short, "page-top headings order " + sp[:50], r.where(e[5]),
                                  f"the page-top headings are emitted in the order of `{sp[:60]}` (each level looked up by name), not in page_by declaration order: when the "
                                  "frame stores the page_by columns in another order an inner heading is printed above its outer one")
                else:
                    ctx.gap("R05.4", f"render: page-top headings are looked up in the order of `{sp[:60]}`, whose relation to the page_by order is not known")
                continue
            if not from_info:
                ctx.gap("R05.4", f"render: page-top headings iterate `{path_of(elem.source)[:60] if elem is not None else '?'}`, not recognisably the page's pageby_header_info['group_values']")
                continue
            meth = elem.source.meth if isinstance(elem.source, CallSym) else None
            if isinstance(t, SubSym) and t.base is elem and meth == "items":
                if t.key == 0:
                    ctx.violation("R05.4", r.short, "page-top headings", r.where(e[5]), "the page-top heading shows the level's column name, not the value of the page's first row")
            elif t is elem and meth == "values":
                pass
            elif isinstance(t, SubSym) and t.key is elem:
                pass
            elif t is elem:
                ctx.violation("R05.4", r.short, "page-top headings", r.where(e[5]), "the page-top heading shows the level's column name, not the value of the page's first row")
            else:
                ctx.gap("R05.4", f"render: page-top heading text `{path_of(txt)[:60]}` not recognised")
    if not n:
        ctx.gap("R05.4", "render: no path emits a page-top heading")


# ------------------------------------------------------------------------------------------------------------
# R05.2: 'spanning rows are shown' (two render sites) == 'page_by columns are removed' (prepare_dataframe)
# ------------------------------------------------------------------------------------------------------------

_PBR = ["column", "first_row"]


def _config_table(dt: LDT, rows) -> dict | None:
    """rows: [(valuation, happened)] -> {(new_page, pageby_row): happened on some path consistent with that setting};
    None if an atom about new_page / pageby_row has a shape that cannot be evaluated"""
    tbl = {}
    for npg, pbr in itertools.product([True, False], _PBR):
        hit = False
        for v, happened in rows:
            ok = True
            for key, val in v.items():
                rec = dt.cmp.get(key)
                if ".new_page" in key or key.endswith("new_page)") or "pageby_row" in key:
                    if rec is None:
                        return None
                    if rec[0] == "truth" and rec[1].path.endswith("new_page"):
                        want = npg
                    elif rec[0] == "is None":
                        want = False
                    elif rec[0] in _OPS and isinstance(rec[1], Sym) and rec[1].path.endswith("pageby_row") and not has_sym(rec[2]):
                        want = _cmp(rec[0](), pbr, rec[2])
                    elif rec[0] in _OPS and isinstance(rec[2], Sym) and rec[2].path.endswith("pageby_row") and not has_sym(rec[1]):
                        want = _cmp(rec[0](), rec[1], pbr)
                    elif rec[0] in (ast.Eq, ast.NotEq, ast.Is, ast.IsNot) and isinstance(rec[1], Sym) and rec[1].path.endswith("new_page") and isinstance(rec[2], bool):
                        want = _cmp(rec[0](), npg, rec[2])
                    else:
                        return None
                    if want != val:
                        ok = False
                        break
            if ok and happened:
                hit = True
                break
        tbl[(npg, pbr)] = hit
    return tbl


def _guard_rows(pm, fi, node):
    """[(valuation, all guards of node hold)]"""
    gs = [(resolve(t, fi.node), pol) for t, pol in guards(node, fi.node)]
    dt = LDT(pm)
    env = sym_env(fi)()

    def run():
        for t, pol in gs:
            if dt.truth(dt.ev(t, dict(env))) != pol:
                return False
        return True
    return dt, run_expr(dt, run)


def r05_2(ctx: Ctx) -> None:
    """shown(new_page, pageby_row) at render step 7 == at _render_body == columns removed in prepare_dataframe"""
    declare(ctx)
    pm = ctx.pm
    tables = {}
    for short in ("PageRenderer.render", "PageRenderer._render_body"):
        fi = pm.func(short)
        calls = [c for c in walk_no_nested(fi.node) if isinstance(c, ast.Call) and dotted(c.func).split(".")[-1] == "encode_spanning_row"]
        if not calls:
            ctx.gap("R05.2", f"{short}: no emission of a spanning row (encode_spanning_row) was re-identified")
            continue
        merged = None
        for c in calls:
            try:
                dt, rows = _guard_rows(pm, fi, c)
                cover(ctx, f"{short} (conditions under which a spanning row is emitted)", rows)
            except Unsupported as e:
                ctx.gap("R05.2", f"{short}: conditions of the spanning-row emission could not be evaluated ({e})")
                continue
            tbl = _config_table(dt, rows)
            if tbl is None:
                ctx.gap("R05.2", f"{short}: a condition on new_page / pageby_row has an unrecognised form")
                continue
            merged = tbl if merged is None else {k: merged[k] or tbl[k] for k in tbl}
        if merged is not None:
            tables[short] = merged
            ctx.instance("R05.2", fi.where(calls[0]), f"{short}: spanning rows can be shown <=> {_show_tbl(merged)}")
    # removal of the page_by columns
    p = pm.func("RTFEncodingService.prepare_dataframe_for_body_encoding")
    fn = p.node

    def is_removal(n: ast.AST) -> bool:
        if isinstance(n, ast.Call) and isinstance(n.func, ast.Attribute) and n.func.attr in ("update", "add", "extend", "append", "union") and n.args:
            return any(x.endswith(".page_by") for x in ast_leaves(n.args[0]))
        if isinstance(n, ast.AugAssign):
            return any(x.endswith(".page_by") for x in ast_leaves(n.value))
        return False
    idx = [i for i, s in enumerate(fn.body) if any(is_removal(n) for n in ast.walk(s))]
    if not idx:
        ctx.gap("R05.2", "prepare_dataframe_for_body_encoding: the statement that schedules the page_by columns for removal was not re-identified")
    else:
        try:
            dt = LDT(pm, watch={"update", "add", "extend", "append", "union"})
            leaves = run_block(dt, fn.body[:max(idx) + 1], sym_env(p), p)
            cover(ctx, "prepare_dataframe_for_body_encoding (prefix up to the page_by column removal)", leaves)
            rows = []
            for v, env, eff, out in leaves:
                removed = any(e[0] == "call" and e[1] in ("update", "add", "extend", "append", "union", "augBitOr", "augAdd") and e[3]
                              and any(isinstance(x, Sym) and x.path.endswith(".page_by") for x in parts(e[3][0])) for e in eff)
                rows.append((v, removed))
            tbl = _config_table(dt, rows)
            if tbl is None:
                ctx.gap("R05.2", "prepare_dataframe_for_body_encoding: a condition on new_page / pageby_row has an unrecognised form")
            else:
                tables[p.short] = tbl
                ctx.instance("R05.2", p.where(fn.body[idx[0]]), f"page_by columns removed <=> {_show_tbl(tbl)}")
        except Unsupported as e:
            ctx.gap("R05.2", f"prepare_dataframe_for_body_encoding could not be interpreted ({e})")
    spec = {(n, r): (not n) or r != "column" for n, r in itertools.product([True, False], _PBR)}
    for k, tbl in tables.items():
        if tbl != spec:
            diff = {kk: vv for kk, vv in tbl.items() if spec[kk] != vv}
            ctx.violation("R05.2", k, f"predicate {diff}", pm.func(k).where(),
                          f"{k}: 'page_by values are shown as spanning rows / their columns are removed' differs from `not new_page or pageby_row != 'column'` at {diff}; "
                          "the three sites must agree or values vanish (column removed, no heading) or appear twice")
    ctx.floor("R05.2", 3)


def _show_tbl(t: dict) -> str:
    return "{" + ", ".join(f"new_page={k[0]},{k[1]}: {v}" for k, v in sorted(t.items(), key=str)) + "}"


# ------------------------------------------------------------------------------------------------------------
# R05.3 / R05.5: dividers and the heading budget
# ------------------------------------------------------------------------------------------------------------

def _is_dash(x) -> bool:
    return isinstance(x, ast.Constant) and isinstance(x.value, str) and len(x.value) >= 3 and set(x.value) == {"-"}


def _divider_verdict(ctx: Ctx, rule: str, fi, where: str, dt: LDT, v: dict, value, what: str) -> None:
    """`value` ends up as a heading / costs rows on the path with valuation v: it must have been tested to be no divider"""
    seen = False
    for key, val in v.items():
        d = _divider_atom(key, dt.cmp.get(key))
        if d is None or not _same(_unstr(d[0]), value):
            continue
        seen = True
        if d[1] != DIVIDER:
            continue                      # reported by the literal scan
        if (val == d[2]):
            ctx.violation(rule, fi.short, "divider filter inverted " + key[:60], where, f"{fi.short}: {what} exactly when its value IS the divider '{DIVIDER}' (`{key[:80]}` = {val})")
    if not seen:
        opaque = [k for k in v if k.startswith("bool(") and path_of(value) in k]
        if opaque:
            ctx.gap(rule, f"{fi.short}: whether a value is a divider is decided by `{opaque[0][:60]}`, which could not be evaluated")
        else:
            ctx.violation(rule, fi.short, "divider not filtered", where, f"{fi.short}: {what} without its value being compared with the divider '{DIVIDER}'")


def r05_3(ctx: Ctx) -> None:
    declare(ctx)
    pm = ctx.pm
    # 1. one literal everywhere
    for fi in pm.iter_funcs():
        for c in walk_no_nested(fi.node):
            if isinstance(c, ast.Compare) and any(_is_dash(x) for x in [c.left] + c.comparators):
                lit = next(x.value for x in [c.left] + c.comparators if _is_dash(x))
                ctx.instance("R05.3", fi.where(c), f"{fi.short}: divider test `{unparse(c)}`")
                if lit != DIVIDER:
                    ctx.violation("R05.3", fi.short, "divider filter " + unparse(c), fi.where(c), f"{fi.short}: divider values are recognised by `{unparse(c)}`; all sites must use '{DIVIDER}'")
    # 2. a divider never becomes a heading value
    got = _header_leaves(ctx)
    if isinstance(got, Exception):
        ctx.gap("R05.3", f"_get_group_headers could not be interpreted ({got})")
    else:
        g, dt, leaves = got
        for v, env, eff, outcome in leaves:
            ret = outcome[1] if isinstance(outcome, tuple) and outcome[0] == "return" else None
            if isinstance(ret, dict) and isinstance(ret.get("group_values"), dict):
                for k, val in ret["group_values"].items():
                    _divider_verdict(ctx, "R05.3", g, g.where(), dt, v, val, "a value becomes a page-top heading")
    got = _boundary_leaves(ctx)
    if isinstance(got, Exception):
        ctx.gap("R05.3", f"_detect_group_boundaries could not be interpreted ({got})")
    else:
        b, dt, leaves = got
        for v, d, node in _boundary_records(leaves):
            if isinstance(d.get("group_values"), dict):
                for k, val in d["group_values"].items():
                    _divider_verdict(ctx, "R05.3", b, b.where(node), dt, v, val, "a value becomes a heading at a boundary")
    # 3. ... and never costs a row
    c = pm.func("PageBreakCalculator.calculate_row_metadata")
    calls = [n for n in walk_no_nested(c.node) if isinstance(n, ast.Call) and dotted(n.func).split(".")[-1] == "_calculate_header_rows"]
    rows = [lp for lp in walk_no_nested(c.node) if isinstance(lp, ast.For) and any(any(x is k for x in ast.walk(lp)) for k in calls)]
    rows = [lp for lp in rows if not any(m is not lp and any(x is lp for x in ast.walk(m)) for m in rows)]
    if not calls or len(rows) != 1:
        ctx.gap("R05.3", "calculate_row_metadata: the per-row heading budget (_calculate_header_rows inside the row loop) was not re-identified")
    else:
        lp = rows[0]
        skip = [n for n in ast.walk(lp) if isinstance(n, ast.For) and n is not lp and not _has_call(n, "_calculate_header_rows")
                and not any(isinstance(x, ast.Compare) and any(_is_dash(y) for y in [x.left] + x.comparators) for x in ast.walk(n))]
        try:
            dt = LDT(pm, watch={"_calculate_header_rows"}, skip_loops=skip)
            leaves = run_block(dt, temps_for(c.node, lp.body) + lp.body, sym_env(c), c)
            cover(ctx, "calculate_row_metadata (one row of the row loop, column loop abstracted)", leaves)
        except Unsupported as e:
            ctx.gap("R05.3", f"calculate_row_metadata: row loop could not be interpreted ({e})")
            leaves = []
        n = 0
        for v, env, eff, out in leaves:
            for e in eff:
                if not (e[0] == "call" and e[1] == "_calculate_header_rows"):
                    continue
                n += 1
                text = e[3][0] if e[3] else e[4].get("text")
                if isinstance(text, str):
                    if text == "":
                        ctx.violation("R05.3", c.short, "divider budget", c.where(e[5]), "a group whose values are all dividers (empty heading text) is still budgeted with heading rows")
                    for key, val in v.items():
                        d = _divider_atom(key, dt.cmp.get(key))
                        if d is not None and d[1] == DIVIDER and val == d[2] and path_of(_unstr(d[0])) in text:
                            ctx.violation("R05.3", c.short, "divider budget", c.where(e[5]), f"a divider value is part of the heading text that is budgeted (`{key[:70]}` = {val})")
                elif isinstance(text, Sym):
                    ctx.gap("R05.3", f"calculate_row_metadata: heading text `{text.path[:60]}` handed to _calculate_header_rows could not be evaluated")
        ctx.instance("R05.3", c.where(lp), f"heading budget: {n} call(s) of _calculate_header_rows over {len(leaves)} paths of one row; never with an empty text or a divider value")
        if not n and leaves:
            ctx.gap("R05.3", "calculate_row_metadata: no path budgets heading rows")
    ctx.floor("R05.3", 4)


def r05_5_6(ctx: Ctx) -> None:
    pm = ctx.pm
    c = pm.func("PageBreakCalculator.calculate_row_metadata")
    fn = c.node
    from ..linform import linform, single_assign_env
    env = single_assign_env(fn)
    need = ("total_rows", "data_rows", "pageby_header_rows", "subline_header_rows")
    dicts = [d for d in walk_no_nested(fn) if isinstance(d, ast.Dict) and {k.value for k in d.keys if isinstance(k, ast.Constant)} >= set(need)
             and any(isinstance(x, (ast.For, ast.ListComp, ast.GeneratorExp)) for x in _anc(d, fn))]
    if len(dicts) != 1:
        ctx.gap("R05.5", f"calculate_row_metadata: {len(dicts)} row-metadata records with total_rows / data_rows / pageby_header_rows / subline_header_rows (1 expected)")
    else:
        d = dicts[0]
        val = {k.value: x for k, x in zip(d.keys, d.values) if isinstance(k, ast.Constant)}
        tot = linform(val["total_rows"], env)
        want: dict = {}
        for k in need[1:]:
            for t, cf in linform(val[k], env).items():
                want[t] = want.get(t, 0) + cf
        want = {t: cf for t, cf in want.items() if cf}
        ctx.instance("R05.5", c.where(d), f"row height includes its headings: total_rows = {tot}")
        if tot != want:
            ctx.violation("R05.5", c.short, "total_rows", c.where(d), f"total_rows = {tot} is not data_rows + pageby_header_rows + subline_header_rows = {want}: heading rows are not "
                          "budgeted together with the group's first data row (a heading can be stranded at the bottom of a page)")
        # heading rows are counted exactly at rows that start a group
        for key, start in (("pageby_header_rows", "is_group_start"), ("subline_header_rows", "is_subline_start")):
            tgt = val[key]
            if not isinstance(tgt, ast.Name) or start not in val:
                ctx.gap("R05.5", f"calculate_row_metadata: `{key}` / `{start}` of the row record not recognised")
                continue
            calls = [n for n in walk_no_nested(fn) if isinstance(n, ast.Call) and dotted(n.func).split(".")[-1] == "_calculate_header_rows" and tgt.id in _assigned_to(n, fn)]
            if not calls:
                ctx.gap("R05.5", f"calculate_row_metadata: the call that budgets `{key}` was not re-identified")
                continue
            sv = val[start]
            atoms = set()
            if isinstance(sv, ast.IfExp) and isinstance(sv.orelse, ast.Constant) and sv.orelse.value is False:
                atoms = {unparse(sv.test), unparse(sv.body)}
            elif isinstance(sv, ast.BoolOp) and isinstance(sv.op, ast.And):
                atoms = {unparse(x) for x in sv.values}
            else:
                atoms = {unparse(sv)}
            for n in calls:
                ga = guard_atoms(guards(n, fn))
                ctx.instance("R05.5", c.where(n), f"`{key}` budgeted under {sorted(ga)}; group start = {sorted(atoms)}")
                if not atoms <= ga:
                    ctx.violation("R05.5", c.short, "heading rows condition", c.where(n), f"`{key}` is budgeted under {sorted(ga)}, not exactly at rows that start a group ({sorted(atoms)})")
    _r05_6(ctx)


def _assigned_to(n, fn) -> list[str]:
    for a in _anc(n, fn):
        if isinstance(a, ast.Assign):
            return [unparse(t) for t in a.targets]
        if isinstance(a, ast.AnnAssign):
            return [unparse(a.target)]
        if isinstance(a, ast.stmt):
            return []
    return []


def _r05_6(ctx: Ctx) -> None:
    declare(ctx)
    pm = ctx.pm
    short = "SublineStrategy.paginate"
    got = _paginate_leaves(ctx, short)
    if isinstance(got, Exception):
        ctx.gap("R05.6", f"{short}: could not be interpreted ({got})")
    else:
        s, dt, leaves = got
        gh = pm.func("PageByStrategy._get_group_headers")
        ps = _pos_params(gh)
        cols = None
        for v, env, eff, out in leaves:
            for page, kw, stores in _pages_of_leaf(eff):
                x = stores.get("subline_header")
                if isinstance(x, CallSym) and x.meth == "_get_group_headers":
                    cols = _bound(gh, x.args, dict(x.kw)).get(ps[1])
        if cols is None:
            ctx.gap("R05.6", f"{short}: no path stores the result of _get_group_headers as a page's subline_header")
        else:
            key = f"bool({path_of(cols)})"
            n = 0
            for v, env, eff, out in leaves:
                for page, kw, stores in _pages_of_leaf(eff):
                    if v.get(key) is False:
                        continue
                    n += 1
                    x = stores.get("subline_header")
                    if x is None:
                        ctx.violation("R05.6", s.short, "subline header assignment", s.where(),
                                      f"on the path [{_fmt({k: b for k, b in v.items() if len(k) < 80})}] a page is produced without the subline heading although subline_by is set: "
                                      "not every page gets the subline heading of its own first row")
                        continue
                    span = _page_span(kw.get("data"))
                    if not (isinstance(x, CallSym) and x.meth == "_get_group_headers") or span is None:
                        ctx.gap("R05.6", f"{short}: subline_header `{path_of(x)[:50]}` / page rows not recognised")
                        continue
                    a = _bound(gh, x.args, dict(x.kw))
                    if not (_same(a.get(ps[0]), span[0]) and _same(a.get(ps[2]), span[1])):
                        ctx.violation("R05.6", s.short, "subline header row " + path_of(a.get(ps[2]))[:50], s.where(),
                                      f"the subline heading of a page is read from row `{path_of(a.get(ps[2]))[:60]}`, not from the page's own first row `{path_of(span[1])[:60]}`")
            ctx.instance("R05.6", s.where(), f"subline heading assigned from the page's first row on all {n} page-producing paths with subline_by set")
    r = pm.func("PageRenderer.render")
    calls = [n for n in walk_no_nested(r.node) if isinstance(n, ast.Call) and dotted(n.func).split(".")[-1] == "_generate_subline_header"]
    if not calls:
        ctx.gap("R05.6", "render: the call that renders the subline heading (_generate_subline_header) was not re-identified")
    for call in calls:
        try:
            dt, rows = _guard_rows(pm, r, call)
            cover(ctx, "PageRenderer.render (conditions under which the subline heading is rendered)", rows)
            argv = dt.ev(resolve(call.args[0], r.node), sym_env(r)()) if call.args else None
        except (Unsupported, NeedAtom) as e:
            ctx.gap("R05.6", f"render: conditions of the subline heading could not be evaluated ({e})")
            continue
        key = f"bool({path_of(argv)})"
        bad = [v for v, ok in rows if not ok and v.get(key, True)]
        ctx.instance("R05.6", r.where(call), f"subline heading rendered on {sum(1 for v, ok in rows if ok)} of {len(rows)} guard valuations; has-heading atom `{key[:50]}`")
        if bad:
            other = sorted({k for v in bad for k, x in v.items() if k != key})
            ctx.violation("R05.6", r.short, "subline header guard " + "; ".join(o[:50] for o in other)[:120], r.where(call),
                          f"the subline heading of a page that has one is rendered only under further conditions ({'; '.join(o[:60] for o in other)}) (e.g. first page only)")
    f = pm.func("PageRenderer._format_group_header")
    try:
        dt = LDT(pm)
        leaves = run_block(dt, f.node.body, sym_env(f), f)
        cover(ctx, "PageRenderer._format_group_header (whole body)", leaves)
    except Unsupported as e:
        ctx.gap("R05.6", f"_format_group_header could not be interpreted ({e})")
        return
    seen = False
    for v, env, eff, out in leaves:
        ret = out[1] if isinstance(out, tuple) and out[0] == "return" else None
        if not has_sym(ret):
            continue
        elems = [p for p in parts(ret) if isinstance(p, ElemSym)]
        gv = [p for e in elems for p in parts(e.source) if isinstance(p, SubSym) and p.key == "group_values"]
        if not gv:
            continue
        seen = True
        src = elems[0].source
        meth = src.meth if isinstance(src, CallSym) else None
        ctx.instance("R05.6", f.where(), f"subline heading text `{path_of(ret)[:80]}`")
        if meth == "keys" or isinstance(src, SubSym):
            uses_val = any(isinstance(p, SubSym) and p.key is elems[0] for p in parts(ret))
            if not uses_val:
                ctx.violation("R05.6", f.short, "heading text", f.where(), "the subline heading text is built from the column names, not from the page's group values")
        elif meth not in ("values", "items"):
            ctx.gap("R05.6", f"_format_group_header: iteration `{path_of(src)[:50]}` over the group values not recognised")
    if not seen:
        ctx.gap("R05.6", "_format_group_header: the text built from info['group_values'] was not re-identified")


def check(ctx: Ctx) -> None:
    ctx.explain(
        "The relevant functions / loop iterations are interpreted over symbolic inputs. R05.1 the page's heading info and boundaries are computed from the first row / row range "
        "of the slice that is the page's data; _get_group_headers reads df[col][start_row] level by level in page_by order; a boundary's page-relative row = absolute row - "
        "start_row and the rows start_row+1..end_row are all examined. R05.2 decision tables of 'spanning rows shown' at render step 7 and _render_body and of 'page_by columns "
        "removed' in prepare_dataframe over new_page x pageby_row equal `not new_page or pageby_row != 'column'`. R05.3 one divider literal; a value that becomes a heading was "
        "tested to be no divider; no heading budget for an empty text or a divider. R05.4 decision table of one level of the heading loop: emitted <=> changed or carried flag, "
        "flag' = changed or flag, flag reset per boundary, heading text = new value, remembered values updated after / initialised from the page-top values; page-top headings "
        "for every level. R05.5 heading rows are part of the first row's height and counted at group starts. R05.6 subline heading for every page, rendered whenever the page has "
        "one. R05.7 column-wise comparison of consecutive rows; at a boundary: segment from the old cursor, then headings, cursor advanced on every path.")
    ctx.assume("group values are compared via str() consistently (as the library does)")
    ctx.assume("R05.1 range check: a condition on the row index inside the range loop is linear in the index, so it is decided exactly by evaluating it at the binding end "
               "of the range (monotonicity), not by sampling")
    ctx.assume("R05.7: a loop-carried 'previous row key' is accepted as the cells of row r-1 by induction over the range loop (step 1): its value before the loop must be the "
               "cells of row lo-1 and the loop must re-bind it to the cells of the current row r; both are checked on the terms, otherwise gap / violation")
    ctx.assume("R05.2 / R05.6 guard tables quantify existentially over all conditions other than new_page / pageby_row (resp. 'the page has a subline heading'): "
               "'can be shown under this setting'")
    ctx.undecided("correct heading placement for concrete group runs (depends on run-time page assignment)")
    r05_1(ctx)
    r05_2(ctx)
    r05_3(ctx)
    r05_4(ctx)
    r05_5_6(ctx)
    r05_7(ctx)
