"""C05 - every data row sits under its own group heading on its own page.

R05.1 heading values and in-page boundaries are taken from the page's own [start_row, end_row];
R05.2 three-site agreement of 'spanning rows are shown' / 'page_by columns are removed';
R05.3 the divider literal is one constant at all filter sites and yields neither heading nor budget;
R05.4 sticky hierarchy flag in the level loop of _render_body; R05.5 heading rows are budgeted with
the group's first data row; R05.6 subline heading assigned for every page and rendered unconditionally;
R05.7 boundaries compare consecutive rows column by column and segments are rendered before headings.
"""
from __future__ import annotations

import ast
import itertools

from ..dtab import DT, NeedAtom, Sym
from ..linform import linform, single_assign_env
from ..pm import AnalysisError, dotted, unparse, walk_no_nested
from ..report import Ctx

DIVIDER = "-----"


def r05_1(ctx: Ctx) -> None:
    pm = ctx.pm
    for short in ("PageByStrategy.paginate", "SublineStrategy.paginate"):
        fi = pm.func(short)
        env = single_assign_env(fi.node)
        calls_h = [c for c in walk_no_nested(fi.node) if isinstance(c, ast.Call) and dotted(c.func).endswith("_get_group_headers")]
        calls_b = [c for c in walk_no_nested(fi.node) if isinstance(c, ast.Call) and dotted(c.func).endswith("_detect_group_boundaries")]
        for c in calls_h:
            args = [unparse(a) for a in c.args]
            cols = c.args[1]
            while isinstance(cols, ast.Name) and cols.id in env:
                cols = env[cols.id]
            ok = len(args) == 3 and args[0] == "context.df" and args[2] == "start_row" and unparse(cols) in ("context.rtf_body.page_by", "context.rtf_body.subline_by")
            ctx.instance("R05.1", fi.where(c), f"{short}: _get_group_headers({', '.join(args)})")
            if not ok:
                ctx.violation("R05.1", short, "group headers args " + ",".join(args), fi.where(c), f"{short}: heading values are not read from the page's own first row (context.df, cols, start_row)")
        for c in calls_b:
            args = [unparse(a) for a in c.args]
            ok = args[:1] == ["context.df"] and args[2:] == ["start_row", "end_row"]
            ctx.instance("R05.1", fi.where(c), f"{short}: _detect_group_boundaries({', '.join(args)})")
            if not ok:
                ctx.violation("R05.1", short, "boundaries args " + ",".join(args), fi.where(c), f"{short}: in-page boundaries are not searched in the page's own [start_row, end_row]")
        if not calls_b or not calls_h:
            ctx.violation("R05.1", short, "heading calls missing", fi.where(), f"{short}: page_by heading info / boundaries are no longer attached to pages")
        # attached only under `if page_by`
        t = unparse(fi.node)
        if "page_ctx.pageby_header_info = self._get_group_headers(context.df, page_by, start_row)" not in t or "page_ctx.group_boundaries = group_boundaries" not in t:
            ctx.violation("R05.1", short, "heading attachment", fi.where(), f"{short}: heading info / boundaries are not stored on the page they were computed for")
    g = pm.func("PageByStrategy._get_group_headers")
    t = unparse(g.node)
    ok = "val = df[col][start_row]" in t and "for col in page_by" in t and "group_values[col] = val" in t
    ctx.instance("R05.1", g.where(), f"_get_group_headers reads df[col][start_row] for each page_by column in order: {ok}")
    if not ok:
        ctx.violation("R05.1", g.short, "heading source", g.where(), "group heading values are not the values of the page's first row, level by level in page_by order")
    b = pm.func("PageByStrategy._detect_group_boundaries")
    tb = unparse(b.node)
    loop = [n for n in walk_no_nested(b.node) if isinstance(n, ast.For)]
    rng_ok = bool(loop) and unparse(loop[0].iter).replace(" ", "") == "range(start_row,end_row)"
    rel = None
    for d in ast.walk(b.node):
        if isinstance(d, ast.Dict):
            for k, v in zip(d.keys, d.values):
                if isinstance(k, ast.Constant) and k.value == "page_relative_row":
                    rel = linform(v)
                if isinstance(k, ast.Constant) and k.value == "absolute_row":
                    absr = linform(v)
    iv = loop[0].target.id if loop and isinstance(loop[0].target, ast.Name) else "row_idx"
    rel_ok = rel == {iv: 1, "": 1, "start_row": -1}
    ctx.instance("R05.1", b.where(), f"boundaries: loop {unparse(loop[0].iter) if loop else '?'}; page_relative_row = {rel}")
    if not rng_ok:
        ctx.violation("R05.1", b.short, "boundary range", b.where(), "boundaries are not searched between every pair of consecutive rows of the page (range(start_row, end_row))")
    if not rel_ok:
        ctx.violation("R05.1", b.short, f"page_relative_row {rel}", b.where(), "a boundary's page-relative row is not (row index of the new group's first row) - start_row")


def r05_2(ctx: Ctx) -> None:
    """shown(new_page, pageby_row) at render step 7 == at _render_body == columns removed in prepare_dataframe"""
    pm = ctx.pm
    tables = {}
    # render step 7 and _render_body: the conjunct mentioning new_page/pageby_row inside their guards
    for short, marker in (("PageRenderer.render", "pageby_header_info"), ("PageRenderer._render_body", "group_boundaries")):
        fi = pm.func(short)
        tests = [n.test for n in walk_no_nested(fi.node) if isinstance(n, ast.If) and marker in unparse(n.test) and "pageby_row" in unparse(n.test)]
        if len(tests) != 1:
            ctx.violation("R05.2", short, "guard missing", fi.where(), f"{short}: no guard on (new_page, pageby_row) decides whether spanning rows are shown")
            continue
        test = tests[0]
        sub = [v for v in (test.values if isinstance(test, ast.BoolOp) else [test]) if "pageby_row" in unparse(v)]
        tbl = {}
        for npg, pbr in itertools.product([True, False], ["column", "first_row"]):
            dt = DT(pm, atoms={"document.rtf_body.pageby_row": ["column", "first_row"]}, classes={"document": "RTFDocument", "document.rtf_body": "RTFBody"})
            dt.val = {"bool(document.rtf_body.new_page)": npg, "document.rtf_body.pageby_row": pbr}
            try:
                tbl[(npg, pbr)] = bool(dt.truth(dt.ev(sub[0], {"document": Sym("document", "RTFDocument"), "__fi__": fi})))
            except NeedAtom as e:
                ctx.violation("R05.2", short, "depends on " + e.key, fi.where(), f"{short}: showing spanning rows depends on `{e.key}`")
                tbl = None
                break
        tables[short] = tbl
        ctx.instance("R05.2", fi.where(), f"{short}: spanning rows shown <=> `{unparse(sub[0])}` -> {tbl}")
    # removal predicate in prepare_dataframe_for_body_encoding
    p = pm.func("RTFEncodingService.prepare_dataframe_for_body_encoding")
    blk = [n for n in walk_no_nested(p.node) if isinstance(n, ast.If) and unparse(n.test) == "rtf_attrs.page_by is not None"]
    if len(blk) != 1:
        ctx.violation("R05.2", p.short, "removal block", p.where(), "page_by column removal is no longer decided under `page_by is not None`")
    else:
        from ..dtab import enumerate_block
        tbl = {}
        for npg, pbr in itertools.product([True, False], ["column", "first_row"]):
            dt = DT(pm, atoms={"rtf_attrs.pageby_row": ["column", "first_row"]}, classes={"rtf_attrs": "RTFBody"})
            dt.val = {"bool(rtf_attrs.new_page)": npg, "rtf_attrs.pageby_row": pbr}
            env = {"rtf_attrs": Sym("rtf_attrs", "RTFBody"), "columns_to_remove": Sym("columns_to_remove"), "__fi__": p}
            dt.effect_calls = {"update"}
            dt.stores = {}
            from ..dtab import Run
            dt.run_state = Run()
            try:
                dt.block(blk[0].body, env)
            except NeedAtom as e:
                ctx.violation("R05.2", p.short, "depends on " + e.key, p.where(), f"column removal depends on `{e.key}`")
                tbl = None
                break
            tbl[(npg, pbr)] = any(e[0] == "call" and e[1] == "update" and "page_by" in str(e[3]) for e in dt.run_state.effects)
        tables[p.short] = tbl
        ctx.instance("R05.2", p.where(blk[0]), f"page_by columns removed <=> {tbl}")
    spec = {(n, r): (not n) or r != "column" for n, r in itertools.product([True, False], ["column", "first_row"])}
    for k, tbl in tables.items():
        if tbl is not None and tbl != spec:
            diff = {kk: vv for kk, vv in tbl.items() if spec[kk] != vv}
            ctx.violation("R05.2", k, f"predicate {diff}", pm.func(k).where(),
                          f"{k}: 'page_by values are shown as spanning rows / their columns are removed' differs from `not new_page or pageby_row != 'column'` at {diff}; "
                          "the three sites must agree or values vanish (column removed, no heading) or appear twice")
    ctx.floor("R05.2", 3)


def r05_3(ctx: Ctx) -> None:
    pm = ctx.pm
    sites = []
    for fi in pm.iter_funcs():
        for c in walk_no_nested(fi.node):
            if isinstance(c, ast.Compare) and any(isinstance(x, ast.Constant) and isinstance(x.value, str) and set(x.value) == {"-"} and len(x.value) >= 3 for x in [c.left] + c.comparators):
                sites.append((fi, c))
    want_funcs = {"PageByStrategy._get_group_headers": 1, "PageByStrategy._detect_group_boundaries": 1, "PageBreakCalculator.calculate_row_metadata": 2}
    found = {}
    for fi, c in sites:
        lit = next(x.value for x in [c.left] + c.comparators if isinstance(x, ast.Constant) and isinstance(x.value, str))
        found[fi.short] = found.get(fi.short, 0) + 1
        other = c.left if not isinstance(c.left, ast.Constant) else c.comparators[0]
        ok = lit == DIVIDER and isinstance(c.ops[0], ast.NotEq) and unparse(other).startswith("str(")
        ctx.instance("R05.3", fi.where(c), f"{fi.short}: divider filter `{unparse(c)}`")
        if not ok:
            ctx.violation("R05.3", fi.short, "divider filter " + unparse(c), fi.where(c), f"{fi.short}: divider values are filtered by `{unparse(c)}`; all sites must use str(value) != '{DIVIDER}'")
    for f, n in want_funcs.items():
        if found.get(f, 0) < n:
            ctx.violation("R05.3", f, f"divider filter sites {found.get(f, 0)}/{n}", pm.func(f).where(), f"{f}: divider ('{DIVIDER}') values are no longer filtered here; they would produce a heading or cost a row")
    # a filtered value yields no heading and no budget: header_text empty -> pageby_rows stays 0
    c = pm.func("PageBreakCalculator.calculate_row_metadata")
    t = unparse(c.node)
    ok = t.count("if header_text:") >= 2 and "pageby_rows = 0" in t and "subline_rows = 0" in t
    ctx.instance("R05.3", c.where(), f"heading budget only when header text is non-empty: {ok}")
    if not ok:
        ctx.violation("R05.3", c.short, "divider budget", c.where(), "a group whose values are all dividers is still budgeted with heading rows")
    r = pm.func("PageRenderer.render")
    ok_r = "if val is None:\n                    continue" in unparse(r.node) or "if val is None:" in unparse(r.node)
    ctx.floor("R05.3", 4)


def r05_4(ctx: Ctx) -> None:
    pm = ctx.pm
    fi = pm.func("PageRenderer._render_body")
    lvl = [n for n in ast.walk(fi.node) if isinstance(n, ast.For) and isinstance(n.iter, ast.Name) and n.iter.id == "page_by_cols"]
    if len(lvl) != 1:
        ctx.violation("R05.4", fi.short, "level loop", fi.where(), "headings at a boundary are no longer produced by one loop over the page_by levels")
        return
    lp = lvl[0]
    env = {unparse(a.targets[0]): unparse(a.value) for a in ast.walk(fi.node) if isinstance(a, ast.Assign) and len(a.targets) == 1 and isinstance(a.targets[0], ast.Name) and a.targets[0].id == "page_by_cols"}
    order_ok = env.get("page_by_cols") in ("document.rtf_body.page_by or []", "document.rtf_body.page_by")
    assigns = [a for a in ast.walk(lp) if isinstance(a, ast.Assign) and unparse(a.targets[0]) == "force_render"]
    aug = [a for a in ast.walk(lp) if isinstance(a, ast.AugAssign) and unparse(a.target) == "force_render"]
    only_true = bool(assigns) and all(isinstance(a.value, ast.Constant) and a.value.value is True for a in assigns) and not aug
    # initialised False immediately before the loop, in the same block
    parent = getattr(lp, "_parent", None)
    body = getattr(parent, "body", [])
    pre = [s for s in body[:body.index(lp)] if isinstance(s, ast.Assign) and unparse(s.targets[0]) == "force_render"] if lp in body else []
    init_ok = bool(pre) and unparse(pre[-1].value) == "False"
    guards = [n for n in ast.walk(lp) if isinstance(n, ast.If) and "force_render" in unparse(n.test)]
    guard_ok = len(guards) == 1 and unparse(guards[0].test) in ("str(val) != str(last_val) or force_render", "force_render or str(val) != str(last_val)")
    in_guard = guards and all(any(x is a for x in ast.walk(guards[0])) for a in assigns)
    span = [c for c in ast.walk(lp) if isinstance(c, ast.Call) and dotted(c.func).endswith("encode_spanning_row")]
    span_ok = len(span) == 1 and guards and any(x is span[0] for s in guards[0].body for x in ast.walk(s))
    ctx.instance("R05.4", fi.where(lp), f"level loop over {env.get('page_by_cols')}; force_render init False {init_ok}, only ever set True {only_true}, "
                 f"guard `{unparse(guards[0].test) if guards else '?'}`; heading emitted inside the guard {bool(span_ok)}")
    if not order_ok:
        ctx.violation("R05.4", fi.short, "level order " + str(env.get("page_by_cols")), fi.where(lp), "levels are not visited in page_by declaration order (outer before inner)")
    if not (init_ok and only_true and in_guard):
        ctx.violation("R05.4", fi.short, "sticky flag", fi.where(lp),
                      "the 'a higher level changed' flag must start False at each boundary, be set True when a level changes and never be reset inside the level loop "
                      "(otherwise inner headings are skipped when an outer level changes but inner values repeat)")
    if not guard_ok:
        ctx.violation("R05.4", fi.short, "level guard " + (unparse(guards[0].test) if guards else "?"), fi.where(lp), "a level's heading must be emitted when its value changed or a higher level changed")
    if not span_ok:
        ctx.violation("R05.4", fi.short, "heading emission", fi.where(lp), "the level heading is not emitted inside the change guard")
    txt = unparse(span[0]) if span else ""
    if span and "text=header_text" not in txt or "header_text = str(val)" not in unparse(lp):
        ctx.violation("R05.4", fi.short, "heading text", fi.where(lp), "the heading text is not the new value of that level")
    if "last_values.update(new_values)" not in unparse(fi.node):
        ctx.violation("R05.4", fi.short, "state update", fi.where(), "the remembered group values are not updated after a boundary")
    if "last_values = page.pageby_header_info['group_values'].copy()" not in unparse(fi.node):
        ctx.violation("R05.4", fi.short, "state init", fi.where(), "the remembered group values do not start from the page-top heading values")
    # page-top headings: every level of the page's first row
    r = pm.func("PageRenderer.render")
    tr = unparse(r.node)
    ok = "for col_name, val in page.pageby_header_info['group_values'].items():" in tr and "header_text = str(val)" in tr
    ctx.instance("R05.4", r.where(), f"page-top headings: one spanning row per level of pageby_header_info in order: {ok}")
    if not ok:
        ctx.violation("R05.4", r.short, "page-top headings", r.where(), "the page does not start with one heading per page_by level of its first row")


def r05_5_6(ctx: Ctx) -> None:
    pm = ctx.pm
    c = pm.func("PageBreakCalculator.calculate_row_metadata")
    tr = [a for a in ast.walk(c.node) if isinstance(a, ast.Assign) and unparse(a.targets[0]) == "total_rows"]
    ok = len(tr) == 1 and linform(tr[0].value) == {"max_lines_in_row": 1, "pageby_rows": 1, "subline_rows": 1}
    ctx.instance("R05.5", c.where(), f"row height includes its headings: total_rows = {unparse(tr[0].value) if tr else '?'}")
    if not ok:
        ctx.violation("R05.5", c.short, "total_rows", c.where(), "heading rows are not budgeted together with the group's first data row (a heading can be stranded at the bottom of a page)")
    t = unparse(c.node)
    ok2 = "if page_by and page_by_changes[row_idx]:" in t and "if subline_by and subline_by_changes[row_idx]:" in t
    if not ok2:
        ctx.violation("R05.5", c.short, "heading rows condition", c.where(), "heading rows are not counted exactly at rows that start a group")
    s = pm.func("SublineStrategy.paginate")
    ts = unparse(s.node)
    loop = [n for n in walk_no_nested(s.node) if isinstance(n, ast.For) and unparse(n.iter) == "unique_pages"]
    st = [a for a in ast.walk(s.node) if isinstance(a, ast.Assign) and unparse(a.targets[0]) == "page_ctx.subline_header"]
    guard = [unparse(x.test) for a in st for x in _anc(a, s.node) if isinstance(x, ast.If)]
    ok = len(st) == 1 and loop and any(x is st[0] for x in ast.walk(loop[0])) and guard == ["subline_by"] and "self._get_group_headers(context.df, subline_by, start_row)" in unparse(st[0])
    ctx.instance("R05.6", s.where(), f"subline heading assigned for every page from its first row: {bool(ok)} (guards {guard})")
    if not ok:
        ctx.violation("R05.6", s.short, "subline header assignment", s.where(), "not every page gets the subline heading of its own first row")
    r = pm.func("PageRenderer.render")
    g = [n for n in walk_no_nested(r.node) if isinstance(n, ast.If) and "_generate_subline_header" in unparse(n)]
    tests = [unparse(n.test) for n in g]
    ctx.instance("R05.6", r.where(), f"subline heading rendered under {tests}")
    if not tests or tests[0] != "page.subline_header":
        ctx.violation("R05.6", r.short, "subline header guard " + str(tests), r.where(), "the subline heading is rendered under a condition other than 'the page has one' (e.g. first page only)")
    f = pm.func("PageRenderer._format_group_header")
    tf = unparse(f.node)
    if "[str(v) for v in info['group_values'].values() if v is not None]" not in tf or "', '.join(parts)" not in tf:
        ctx.violation("R05.6", f.short, "heading text", f.where(), "the subline heading text is not the page's group values")


def r05_7(ctx: Ctx) -> None:
    pm = ctx.pm
    b = pm.func("PageByStrategy._detect_group_boundaries")
    tb = unparse(b.node)
    ok = "current_group = {col: df[col][row_idx] for col in page_by}" in tb and "next_group = {col: df[col][row_idx + 1] for col in page_by}" in tb and "if current_group != next_group:" in tb
    ctx.instance("R05.7", b.where(), f"boundary detection compares per-column dicts of consecutive rows: {ok}")
    if not ok:
        hint = ""
        for x in ast.walk(b.node):
            if isinstance(x, ast.Call) and (dotted(x.func).endswith("concat_str") or (isinstance(x.func, ast.Attribute) and x.func.attr in ("join", "shift"))):
                hint = f" (found `{unparse(x)[:60]}`)"
        ctx.violation("R05.7", b.short, "boundary comparison", b.where(), f"group boundaries are no longer found by comparing consecutive rows column by column{hint}")
    rb = pm.func("PageRenderer._render_body")
    loop = [n for n in ast.walk(rb.node) if isinstance(n, ast.For) and unparse(n.iter) == "page.group_boundaries"]
    if len(loop) != 1:
        ctx.violation("R05.7", rb.short, "boundary loop", rb.where(), "_render_body no longer walks the page's group boundaries in order")
        return
    lp = loop[0]
    # order inside the loop: segment before headings; cursor advanced unconditionally at the end
    idx = {"seg": None, "head": None, "adv": None}
    for i, s in enumerate(lp.body):
        t = unparse(s)
        if "_encode(segment" in t and idx["seg"] is None:
            idx["seg"] = i
        if "encode_spanning_row" in t and idx["head"] is None:
            idx["head"] = i
        if isinstance(s, ast.Assign) and unparse(s.targets[0]) == "prev_row":
            idx["adv"] = i
    cont = [x for s in lp.body for x in ast.walk(s) if isinstance(x, (ast.Continue, ast.Break)) and not any(isinstance(a, ast.For) and a is not lp for a in _anc(x, lp))]
    ok = None not in idx.values() and idx["seg"] < idx["head"] < idx["adv"] and idx["adv"] == len(lp.body) - 1 and not cont
    ctx.instance("R05.7", rb.where(lp), f"boundary loop statement order segment@{idx['seg']} < headings@{idx['head']} < cursor@{idx['adv']} (last), early exits: {len(cont)}")
    if not ok:
        ctx.violation("R05.7", rb.short, f"boundary loop order {idx} exits={len(cont)}", rb.where(lp),
                      "at each boundary the rows before it must be rendered first, then the headings, and the cursor must advance unconditionally "
                      "(a skipped cursor update renders the rows before the boundary twice)")


def _anc(n, stop):
    p = getattr(n, "_parent", None)
    while p is not None and p is not stop:
        yield p
        p = getattr(p, "_parent", None)


def check(ctx: Ctx) -> None:
    ctx.explain(
        "R05.1 heading values and boundaries are computed from the page's own (start_row, end_row); page_relative_row = "
        "row_idx + 1 - start_row (linear form). R05.2 decision tables of 'spanning rows shown' at render step 7 and "
        "_render_body and of 'page_by columns removed' in prepare_dataframe over new_page x pageby_row are equal to "
        "`not new_page or pageby_row != 'column'`. R05.3 the divider literal and filter form at its four sites; empty "
        "heading text yields no budget. R05.4 sticky-flag discipline of the level loop, declaration order, page-top headings "
        "for every level. R05.5 heading rows are part of the first row's height. R05.6 subline heading for every page, "
        "rendered unconditionally. R05.7 column-wise boundary detection; segment < headings < cursor advance at each boundary.")
    ctx.assume("group values are compared via str() consistently (as the library does)")
    ctx.undecided("correct heading placement for concrete group runs (depends on run-time page assignment)")
    r05_1(ctx)
    r05_2(ctx)
    r05_3(ctx)
    r05_4(ctx)
    r05_5_6(ctx)
    r05_7(ctx)
