"""C09 - cell formatting follows the data cell.

R09.1 consumption completeness: every declared attribute field reaches an emitter or a structural
consumer; R09.2 binding table (model field <- attribute) at the three constructor sites, which must
agree with each other; R09.3 lookup index (i + row_offset, j) through BroadcastValue.iloc's modular
rule; R09.4 row_offset at every _encode call equals the lower bound of the slice that produced the
segment; R09.5 row space: the row index used for lookup must be the row's position in the table, not
in the page; R09.6 per-page fresh copy (shared with C07); R09.7 attribute columns cut with the
removed index set of the original frame (shared with C08).
"""
from __future__ import annotations

import ast

from ..pm import unparse
from ..report import Ctx
from . import tablecore as T

TEXT_BIND = {"font": "text_font", "size": "text_font_size", "format": "text_format", "color": "text_color",
             "background_color": "text_background_color", "justification": "text_justification", "indent_first": "text_indent_first",
             "indent_left": "text_indent_left", "indent_right": "text_indent_right", "space": "text_space",
             "space_before": "text_space_before", "space_after": "text_space_after", "convert": "text_convert", "hyphenation": "text_hyphenation"}
CELL_BIND = {"border_left": "border_left", "border_right": "border_right", "border_top": "border_top", "border_bottom": "border_bottom",
             "vertical_justification": "cell_vertical_justification"}
ROW_BIND = {"justification": "cell_justification", "height": "cell_height"}
STRUCTURAL = {"col_rel_width": "Utils._col_widths (column boundaries)", "border_first": "PageFeatureProcessor (page-edge hierarchy)",
              "border_last": "PageFeatureProcessor (page-edge hierarchy)",
              "cell_nrow": "TableAttributes._encode line-count slot (not a rendering attribute)"}


def _models_at(site: str, pm):
    """(scenario tag, model class, {field: value}, (i, j) or None, record) for every TextContent / Cell / Row the interpreted scenarios of
    `site` construct and emit; errors -> [("error", message)]"""
    out, errors = [], []
    if site == "TableAttributes._encode":
        for rec in T.encode_scenarios(pm):
            tag = f"{rec['shape']} attributes, cell_nrow {'set' if rec['nrow_set'] else 'unset'}"
            if "error" in rec:
                errors.append(f"{site} ({tag}): {rec['error']}")
                continue
            for i, row in enumerate(rec["rows"]):
                out.append((tag, "Row", row.attrs, (i, 0), rec))
                cells = row.attrs.get("row_cells")
                for j, cell in enumerate(cells if isinstance(cells, (list, tuple)) else []):
                    if isinstance(cell, T.Obj) and cell.cls == "Cell":
                        out.append((tag, "Cell", cell.attrs, (i, j), rec))
                        tc = cell.attrs.get("text")
                        if isinstance(tc, T.Obj) and tc.cls == "TextContent":
                            out.append((tag, "TextContent", tc.attrs, (i, j), rec))
    elif site == "TextAttributes._encode_text":
        for rec in T.text_scenarios(pm):
            tag = f"{rec['shape']} attributes, method {rec['method']}"
            if "error" in rec:
                errors.append(f"{site} ({tag}): {rec['error']}")
                continue
            for tc in rec["texts"]:
                t = tc.attrs.get("text")
                idx = (int(t[1:]), 0) if isinstance(t, str) and t[:1] == "t" and t[1:].isdigit() else None
                out.append((tag, "TextContent", tc.attrs, idx, rec))
    else:
        for rec in T.spanning_scenarios(pm):
            tag = f"{rec['shape']} attributes"
            if "error" in rec:
                errors.append(f"{site} ({tag}): {rec['error']}")
                continue
            row = rec["row"]
            out.append((tag, "Row", row.attrs, (0, rec["col"]), rec))
            cells = row.attrs.get("row_cells")
            for cell in (cells if isinstance(cells, (list, tuple)) else []):
                if isinstance(cell, T.Obj) and cell.cls == "Cell":
                    out.append((tag, "Cell", cell.attrs, (0, rec["col"]), rec))
                    tc = cell.attrs.get("text")
                    if isinstance(tc, T.Obj) and tc.cls == "TextContent":
                        out.append((tag, "TextContent", tc.attrs, (0, rec["col"]), rec))
    return out, errors


def _entry(v):
    """the attribute entry a model field was fed from: AV, None, or the value itself; Border(style=x) -> x"""
    if isinstance(v, T.Obj) and v.cls == "Border":
        return v.attrs.get("style")
    return v


SITES = ("TableAttributes._encode", "TextAttributes._encode_text", "RTFEncodingService.encode_spanning_row")


def r09_1_2(ctx: Ctx) -> None:
    """binding table (model field <- attribute), read off the model objects the three encoders construct when they are
    interpreted on mock attributes whose entries all carry their attribute's name"""
    pm = ctx.pm
    T.scenario_note(ctx, "R09.2/R09.3", "TableAttributes._encode / TextAttributes._encode_text / RTFEncodingService.encode_spanning_row",
                    "for every attribute entry (each entry is an atom tagged with attribute name, row, column) and every cell value",
                    {"_encode": "3x2 segment (table rows 3..5 of 7, row_offset 3) x attribute shapes 7x2 / 1x2 / 1x1 x cell_nrow unset/set",
                     "_encode_text": "3 text rows x methods paragraph / line x attribute shapes 3x1 / 1x1",
                     "encode_spanning_row": "column 1, attribute shapes 7x3 / 1x1", "evaluations": 6 + 4 + 2})
    ctx.explain("[R09.1] completeness is set logic over the declared fields and the bindings observed in those evaluations; it does not depend on the witness shapes.")
    consumed: dict[str, set] = {}
    n_sites = 0
    for short in SITES:
        fi = pm.func(short)
        models, errors = _models_at(short, pm)
        for e in errors:
            ctx.gap("R09.2", f"the models built by {e} could not be determined")
        kinds = {m for _t, m, _a, _ij, _r in models}
        n_sites += len(kinds)
        for model in ("TextContent", "Cell", "Row"):
            if model not in kinds:
                continue
            table = {"TextContent": TEXT_BIND, "Cell": CELL_BIND, "Row": ROW_BIND}[model]
            for fld, want in table.items():
                seen, missing, undetermined = set(), 0, 0
                for _tag, m, attrs, _ij, _rec in models:
                    if m != model:
                        continue
                    if fld not in attrs:
                        missing += 1
                        continue
                    v = _entry(attrs[fld])
                    if isinstance(v, T.AV):
                        seen.add(v.name)
                    elif isinstance(v, T.Sym):
                        undetermined += 1
                    elif v is not None:
                        seen.add(repr(v))
                if missing and not seen:
                    ctx.violation("R09.2", short, f"{model}.{fld} not passed", fi.where(), f"{short}: {model}(...) is built without {fld}; the cell falls back to the model default instead of the attribute {want}")
                    continue
                if not seen:
                    if undetermined:
                        ctx.gap("R09.2", f"{short}: the source of {model}.{fld} could not be determined")
                    else:
                        ctx.violation("R09.2", short, f"{model}.{fld} <- None", fi.where(), f"{short}: {model}.{fld} is always None, expected the attribute `{want}`")
                    continue
                for got in sorted(seen):
                    ctx.instance("R09.2", fi.where(), f"{short}: {model}.{fld} <- {got}")
                    if got != want:
                        ctx.violation("R09.2", short, f"{model}.{fld} <- {got}", fi.where(), f"{short}: {model}.{fld} is fed from attribute `{got}`, expected `{want}`")
                    else:
                        consumed.setdefault(want, set()).add(short)
                if missing:
                    ctx.violation("R09.2", short, f"{model}.{fld} not passed", fi.where(), f"{short}: some {model}(...) are built without {fld}")
    if n_sites < 7 and not ctx.deferred_errors:
        ctx.gap("R09.2", f"only {n_sites} of the 7 (site, model) constructions of TextContent/Cell/Row were re-identified")
    # R09.1 completeness
    fields = {}
    for cls in ("TextAttributes", "TableAttributes"):
        for f in pm.classes[cls].fields:
            fields[f] = cls
    for f, cls in sorted(fields.items()):
        if f in consumed:
            ctx.instance("R09.1", pm.cls(cls).path + f":{pm.classes[cls].fields[f].lineno}", f"{cls}.{f} reaches an emitter at {sorted(consumed[f])}")
        elif f in STRUCTURAL:
            ctx.instance("R09.1", pm.cls(cls).path + f":{pm.classes[cls].fields[f].lineno}", f"{cls}.{f} consumed by {STRUCTURAL[f]}")
        elif ctx.deferred_errors and (f in TEXT_BIND.values() or f in CELL_BIND.values() or f in ROW_BIND.values()):
            ctx.instance("R09.1", pm.cls(cls).path + f":{pm.classes[cls].fields[f].lineno}", f"{cls}.{f}: consumption undetermined (encoder not interpreted)")
        else:
            ctx.instance("R09.1", pm.cls(cls).path + f":{pm.classes[cls].fields[f].lineno}", f"{cls}.{f} is accepted and validated but never reaches an emitter")
            ctx.violation("R09.1", f"{cls}.{f}", "never emitted", pm.cls(cls).path + f":{pm.classes[cls].fields[f].lineno}",
                          f"attribute {f} is declared, validated and documented but no encoder reads it: the rendered cells never carry it")
    ctx.floor("R09.1", 30)


def r09_3(ctx: Ctx) -> None:
    """lookup index: cell (i, j) of a segment starting at table row `off` carries entry [(i + off) % R][j % C] of every attribute
    (scalar -> every cell, row vector -> its column, matrix -> cell by cell); row-level attributes use column 0"""
    pm = ctx.pm
    off = T.SEG[0]
    for short in SITES:
        fi = pm.func(short)
        models, errors = _models_at(short, pm)
        for e in errors:
            ctx.gap("R09.3", f"the attribute lookups of {e} could not be determined")
        by_tag: dict[str, list] = {}
        n = 0
        for tag, model, attrs, ij, rec in models:
            if ij is None:
                continue
            table = {"TextContent": TEXT_BIND, "Cell": CELL_BIND, "Row": ROW_BIND}[model]
            for fld in table:
                v = _entry(attrs.get(fld))
                if not isinstance(v, T.AV):
                    continue
                n += 1
                i, j = ij
                if short == "TableAttributes._encode":
                    want = T.expected_entry(v.name, rec["dims"], i + off, j)
                    alt = T.expected_entry(v.name, rec["dims"], i, j) if fld == "border_right" else want   # the right border of the last column is read without the offset (accepted quirk)
                else:
                    want = alt = T.expected_entry(v.name, rec["dims"], i, j)
                if v != want and v != alt:
                    by_tag.setdefault(tag, []).append(f"{model}.{fld} of cell ({i}, {j}) <- {v!r}, expected {want!r}")
        ctx.instance("R09.3", fi.where(), f"{short}: {n} attribute entries reaching models checked against [(i + offset) % R][j % C]")
        for tag, bad in by_tag.items():
            what = "the cell's own (row + row_offset, column)" if short == "TableAttributes._encode" else "the row / column the text belongs to"
            ctx.violation("R09.3", short, f"lookup ({tag.split(',')[0]})", fi.where(),
                          f"{short} ({tag}): {len(bad)} attribute entries are not looked up at {what}, e.g. {bad[0]}"
                          + (" (a segment of a paginated table starts at row_offset; expanding to the segment's shape first cuts a full matrix down to the segment's first rows)" if short == "TableAttributes._encode" else ""))
    e = pm.func("TableAttributes._encode")
    if any(rec.get("no_offset") for rec in T.encode_scenarios(pm)):
        ctx.violation("R09.3", e.short, "no row_offset", e.where(), "_encode can no longer be told where its segment starts")
    # BroadcastValue.iloc itself
    il = pm.func("BroadcastValue.iloc")
    ps = [a.arg for a in il.node.args.args]
    T.scenario_note(ctx, "R09.3", "BroadcastValue.iloc", "for every entry of the block", {"block shapes": [(3, 2), (1, 2), (1, 1), (3, 1)], "indices": [(0, 0), (7, 5), (2, 1), (4, 3)], "evaluations": 16})
    bad = []
    try:
        for shape in ((3, 2), (1, 2), (1, 1), (3, 1)):
            for (r, c) in ((0, 0), (7, 5), (2, 1), (4, 3)):
                sc = T.Scen(pm)
                me = T.Obj("bv", cls="BroadcastValue", value=T.matrix("m", *shape), dimension=None)
                runs = sc.runs(il, {ps[0]: me, ps[1]: r, ps[2]: c})
                got = [x.ret for _v, x in runs]
                if len(runs) != 1 or runs[0][1].raised or got != [T.expected_entry("m", shape, r, c)]:
                    bad.append(f"iloc({r}, {c}) on a {shape[0]}x{shape[1]} block gives {got[0] if got else '?'!r}" + (f" / raises {runs[0][1].raised}" if runs and runs[0][1].raised else ""))
        ctx.instance("R09.3", il.where(), f"BroadcastValue.iloc: value[r % R][c % C] on 16 (block shape, index) pairs: {not bad}")
        if bad:
            ctx.violation("R09.3", il.short, "modular rule", il.where(), "BroadcastValue.iloc is no longer value[row % nrows][col % ncols] (scalar -> every cell, vector -> its column, matrix -> cell by cell): " + bad[0])
    except Exception as ex:
        from ..pm import AnalysisError
        if not isinstance(ex, (AnalysisError, IndexError)):
            raise
        ctx.gap("R09.3", f"BroadcastValue.iloc could not be interpreted: {ex}")


def r09_5(ctx: Ctx) -> None:
    """row space: lookups need the row's position in the TABLE; page.data rows are PAGE-relative"""
    pm = ctx.pm
    rb = pm.func("PageRenderer._render_body")
    pc = pm.cls("PageContext")
    origin_fields = [f for f in pc.fields if f in ("start_row", "row_offset", "first_row", "absolute_start", "start_index", "row_start")]
    proc = unparse(pm.func("PageFeatureProcessor._apply_pagination_borders").node)
    post = unparse(pm.func("UnifiedRTFEncoder._apply_data_post_processing").node)
    attrs_sliced_per_page = any(k in proc + post for k in ("slice_rows", "[start_row:", "row_slice", "rows_of_page"))
    offs = [next((unparse(k.value) for k in c.keywords if k.arg == "row_offset"), "0") for c in ast.walk(rb.node)
            if isinstance(c, ast.Call) and isinstance(c.func, ast.Attribute) and c.func.attr == "_encode"]
    uses_origin = any(any(f in o for f in origin_fields) for o in offs)
    ctx.instance("R09.5", rb.where(), f"_render_body row offsets {offs}; PageContext carries an absolute row origin: {origin_fields or 'no'}; attributes sliced per page: {attrs_sliced_per_page}")
    if not uses_origin and not attrs_sliced_per_page:
        ctx.violation("R09.5", rb.short, "page-relative row offset", rb.where(),
                      "attribute rows are looked up with a page-relative row index (row_offset is the position inside the page and PageContext carries no absolute origin), "
                      "while the attribute matrices describe the whole table: on page 2 a full matrix is read from its row 0 again")


def check(ctx: Ctx) -> None:
    ctx.explain(
        "The three encoders that build TextContent/Cell/Row (TableAttributes._encode, TextAttributes._encode_text, encode_spanning_row) are "
        "interpreted on mock attribute objects whose every entry carries (attribute name, row, column) (tablecore.Scen; no repository code "
        "runs). R09.2 the 14+5+2 (model field <- attribute) bindings are read off the constructed models; R09.1 every annotated field of "
        "TextAttributes/TableAttributes reaches a model field that way or a listed structural consumer; R09.3 the entry reaching cell (i, j) "
        "of a segment starting at table row `off` is [(i + off) % R][j % C] for matrix, row-vector and scalar attributes (BroadcastValue.iloc "
        "itself is interpreted on 16 (block, index) pairs); R09.4 row_offset = first row of the segment (tablecore cursor scenarios); R09.5 "
        "row-space agreement; R09.6 per-page deep copy and alias-free, exactly shaped expansion (C07 R07.4, BroadcastValue.to_list interpreted "
        "on 8 (block, shape) pairs); R09.7 attribute columns cut by original-frame positions (C08 R08.3).")
    ctx.assume("pydantic validates attribute shapes; BroadcastValue is the only lookup path; its `value` validator normalises to nested lists (tablecore.nested_list_form)")
    ctx.undecided("equality of each emitted property value with the attribute value for concrete tables (run-time)")
    r09_1_2(ctx)
    r09_3(ctx)
    T.cursor_render_body(ctx, "R09.4")
    r09_5(ctx)
    from .c07 import r07_4
    r07_4(ctx)
    T.broadcast_expansion(ctx, "R09.6")
    T.column_removal(ctx, "R09.7")
