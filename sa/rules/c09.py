"""C09 - cell formatting follows the data cell.

R09.1 consumption completeness: every declared attribute field reaches an emitter or a structural
consumer; R09.2 binding table (model field <- attribute) at the three constructor sites, which must
agree with each other; R09.3 lookup index (i + row_offset, j) through BroadcastValue.iloc's modular
rule; R09.4 row_offset at every _encode call equals the lower bound of the slice that produced the
segment; R09.5 row space: the row index used for lookup must be the row's position in the table, not
in the page; R09.6 per-page fresh copy (shared with C07); R09.7 attribute columns cut with the
removed index set of the original frame (shared with C08).
"""
from __future__ import annotations

import ast

from ..linform import linform
from ..pm import dotted, unparse, walk_no_nested
from ..report import Ctx
from . import tablecore as T

TEXT_BIND = {"font": "text_font", "size": "text_font_size", "format": "text_format", "color": "text_color",
             "background_color": "text_background_color", "justification": "text_justification", "indent_first": "text_indent_first",
             "indent_left": "text_indent_left", "indent_right": "text_indent_right", "space": "text_space",
             "space_before": "text_space_before", "space_after": "text_space_after", "convert": "text_convert", "hyphenation": "text_hyphenation"}
CELL_BIND = {"border_left": "border_left", "border_right": "border_right", "border_top": "border_top", "border_bottom": "border_bottom",
             "vertical_justification": "cell_vertical_justification"}
ROW_BIND = {"justification": "cell_justification", "height": "cell_height"}
STRUCTURAL = {"col_rel_width": "Utils._col_widths (column boundaries)", "border_first": "PageFeatureProcessor (page-edge hierarchy)",
              "border_last": "PageFeatureProcessor (page-edge hierarchy)",
              "cell_nrow": "TableAttributes._encode line-count slot (not a rendering attribute)"}


def _attr_of(fi, v: ast.AST) -> str | None:
    """attribute name an expression is looked up from: get_broadcast_value('x', …) / get_attr('x', …) / Border(style=…) / local"""
    if isinstance(v, ast.Call):
        nm = dotted(v.func).split(".")[-1]
        if nm in ("get_broadcast_value", "get_attr") and v.args and isinstance(v.args[0], ast.Constant):
            return v.args[0].value
        if nm == "Border":
            for k in v.keywords:
                if k.arg == "style":
                    return _attr_of(fi, k.value)
        if nm == "BroadcastValue":
            for k in v.keywords:
                if k.arg == "value" and isinstance(k.value, ast.Attribute) and isinstance(k.value.value, ast.Name) and k.value.value.id == "self":
                    return k.value.attr
        if isinstance(v.func, ast.Attribute) and v.func.attr == "iloc":
            return _attr_of(fi, v.func.value)
    if isinstance(v, ast.Name):
        assigns = [a for a in ast.walk(fi.node) if isinstance(a, ast.Assign) and len(a.targets) == 1 and isinstance(a.targets[0], ast.Name) and a.targets[0].id == v.id]
        vals = {(_attr_of(fi, a.value) if not (isinstance(a.value, ast.Constant) and a.value.value is None) else None) for a in assigns}
        vals.discard(None)
        if len(vals) == 1:
            return vals.pop()
    return None


def r09_1_2(ctx: Ctx) -> None:
    pm = ctx.pm
    consumed: dict[str, set] = {}
    sites = []
    for short in ("TableAttributes._encode", "TextAttributes._encode_text", "RTFEncodingService.encode_spanning_row"):
        fi = pm.func(short)
        for c in ast.walk(fi.node):
            if isinstance(c, ast.Call) and dotted(c.func) in ("TextContent", "Cell", "Row"):
                model = dotted(c.func)
                table = {"TextContent": TEXT_BIND, "Cell": CELL_BIND, "Row": ROW_BIND}[model]
                got = {}
                for k in c.keywords:
                    if k.arg in table:
                        got[k.arg] = _attr_of(fi, k.value)
                sites.append((fi, c, model, got))
                for fld, want in table.items():
                    if fld not in got:
                        if model == "Cell" and short == "RTFEncodingService.encode_spanning_row" or model == "Cell" and fld == "border_right" and False:
                            pass
                        ctx.violation("R09.2", short, f"{model}.{fld} not passed", fi.where(c), f"{short}: {model}(...) is built without {fld}; the cell falls back to the model default instead of the attribute {want}")
                        continue
                    ctx.instance("R09.2", fi.where(c), f"{short}: {model}.{fld} <- {got[fld]}")
                    if got[fld] != want:
                        ctx.violation("R09.2", short, f"{model}.{fld} <- {got[fld]}", fi.where(c), f"{short}: {model}.{fld} is fed from attribute `{got[fld]}`, expected `{want}`")
                    else:
                        consumed.setdefault(want, set()).add(short)
    if len(sites) < 7:
        ctx.violation("R09.2", "constructor sites", f"{len(sites)} sites", pm.func("TableAttributes._encode").where(), "the cell/text/row models are no longer constructed at the three encoding sites")
    # R09.1 completeness
    fields = {}
    for cls in ("TextAttributes", "TableAttributes"):
        for f in pm.classes[cls].fields:
            fields[f] = cls
    col = unparse(pm.func("ColorService.collect_document_colors").node)
    for f, cls in sorted(fields.items()):
        if f in consumed:
            ctx.instance("R09.1", pm.cls(cls).path + f":{pm.classes[cls].fields[f].lineno}", f"{cls}.{f} reaches an emitter at {sorted(consumed[f])}")
        elif f in STRUCTURAL:
            ctx.instance("R09.1", pm.cls(cls).path + f":{pm.classes[cls].fields[f].lineno}", f"{cls}.{f} consumed by {STRUCTURAL[f]}")
        else:
            ctx.instance("R09.1", pm.cls(cls).path + f":{pm.classes[cls].fields[f].lineno}", f"{cls}.{f} is accepted and validated but never reaches an emitter")
            ctx.violation("R09.1", f"{cls}.{f}", "never emitted", pm.cls(cls).path + f":{pm.classes[cls].fields[f].lineno}",
                          f"attribute {f} is declared, validated and documented but no encoder reads it: the rendered cells never carry it")
    ctx.floor("R09.1", 30)


def r09_3(ctx: Ctx) -> None:
    pm = ctx.pm
    g = pm.func("TableAttributes._encode.<locals>.get_broadcast_value")
    t = unparse(g.node)
    rets = [r.value for r in walk_no_nested(g.node) if isinstance(r, ast.Return)]
    ok = False
    desc = unparse(rets[0]) if rets else "?"
    if len(rets) == 1 and isinstance(rets[0], ast.Call) and isinstance(rets[0].func, ast.Attribute) and rets[0].func.attr == "iloc":
        call = rets[0]
        base = call.func.value
        a = call.args
        ok = isinstance(base, ast.Call) and dotted(base.func) == "BroadcastValue" and \
            {k.arg: unparse(k.value) for k in base.keywords} == {"value": "attr_value", "dimension": "dim"} and len(a) == 2 and \
            linform(a[0]) == {"row_idx": 1, "row_offset": 1} and linform(a[1]) == {"col_idx": 1} and "attr_value = getattr(self, attr_name)" in t
    ctx.instance("R09.3", g.where(), f"cell attribute lookup: {desc}")
    if not ok:
        ctx.violation("R09.3", g.short, "lookup " + desc, g.where(),
                      "a data cell's attribute is not looked up as BroadcastValue(value=<attribute>, …).iloc(row + row_offset, col) on the attribute itself "
                      "(expanding to the segment's shape first cuts a full matrix down to the segment's first rows)")
    il = pm.func("BroadcastValue.iloc")
    ti = unparse(il.node)
    ok = "self.value[row_index % len(self.value)][column_index % len(self.value[0])]" in ti
    ctx.instance("R09.3", il.where(), f"BroadcastValue.iloc: value[r % R][c % C]: {ok}")
    if not ok:
        ctx.violation("R09.3", il.short, "modular rule", il.where(), "BroadcastValue.iloc is no longer value[row % nrows][col % ncols] (scalar -> every cell, vector -> its column, matrix -> cell by cell)")
    e = pm.func("TableAttributes._encode")
    # cell-level lookups use (i, j); row-level ones (i, 0)
    bad = []
    n = 0
    for c in ast.walk(e.node):
        if isinstance(c, ast.Call) and dotted(c.func) == "get_broadcast_value" and len(c.args) == 3:
            n += 1
            attr = c.args[0].value if isinstance(c.args[0], ast.Constant) else "?"
            i_, j_ = unparse(c.args[1]), unparse(c.args[2])
            want_j = "0" if attr in ("cell_justification", "cell_height") else "j"
            if i_ != "i" or j_ != want_j:
                bad.append((attr, i_, j_))
    ctx.instance("R09.3", e.where(), f"{n} attribute lookups in _encode use (i, j) (row-level attributes (i, 0))")
    for attr, i_, j_ in bad:
        ctx.violation("R09.3", e.short, f"{attr} at ({i_}, {j_})", e.where(), f"_encode looks up {attr} at ({i_}, {j_}) instead of the cell's own (i, j)")
    br = "BroadcastValue(value=self.border_right, dimension=dim).iloc(i, j)" in unparse(e.node)
    sig = [a.arg for a in e.node.args.args]
    if "row_offset" not in sig:
        ctx.violation("R09.3", e.short, "no row_offset", e.where(), "_encode can no longer be told where its segment starts")


def r09_5(ctx: Ctx) -> None:
    """row space: lookups need the row's position in the TABLE; page.data rows are PAGE-relative"""
    pm = ctx.pm
    rb = pm.func("PageRenderer._render_body")
    pc = pm.cls("PageContext")
    origin_fields = [f for f in pc.fields if f in ("start_row", "row_offset", "first_row", "absolute_start", "start_index", "row_start")]
    proc = unparse(pm.func("PageFeatureProcessor._apply_pagination_borders").node)
    post = unparse(pm.func("UnifiedRTFEncoder._apply_data_post_processing").node)
    attrs_sliced_per_page = any(k in proc + post for k in ("slice_rows", "[start_row:", "row_slice", "rows_of_page"))
    offs = [next((unparse(k.value) for k in c.keywords if k.arg == "row_offset"), "0") for c in ast.walk(rb.node)
            if isinstance(c, ast.Call) and isinstance(c.func, ast.Attribute) and c.func.attr == "_encode"]
    uses_origin = any(any(f in o for f in origin_fields) for o in offs)
    ctx.instance("R09.5", rb.where(), f"_render_body row offsets {offs}; PageContext carries an absolute row origin: {origin_fields or 'no'}; attributes sliced per page: {attrs_sliced_per_page}")
    if not uses_origin and not attrs_sliced_per_page:
        ctx.violation("R09.5", rb.short, "page-relative row offset", rb.where(),
                      "attribute rows are looked up with a page-relative row index (row_offset is the position inside the page and PageContext carries no absolute origin), "
                      "while the attribute matrices describe the whole table: on page 2 a full matrix is read from its row 0 again")


def check(ctx: Ctx) -> None:
    ctx.explain(
        "R09.1 every annotated field of TextAttributes/TableAttributes is read at an emitter site (through the binding table) "
        "or by a listed structural consumer; R09.2 the 14+5+2 (model field <- attribute) bindings hold at all constructor "
        "sites of TextContent/Cell/Row in _encode, _encode_text and encode_spanning_row; R09.3 the lookup closure is "
        "BroadcastValue(value=attr).iloc(row + row_offset, col) with iloc = value[r % R][c % C] and (i, j) arguments; "
        "R09.4 row_offset = lower bound of the slice (tablecore cursor rule); R09.5 row-space agreement; R09.6 per-page deep "
        "copy and alias-free expansion (C07 R07.4); R09.7 attribute columns cut by original-frame positions (C08 R08.3).")
    ctx.assume("pydantic validates attribute shapes; BroadcastValue is the only lookup path")
    ctx.undecided("equality of each emitted property value with the attribute value for concrete tables (run-time)")
    r09_1_2(ctx)
    r09_3(ctx)
    T.cursor_render_body(ctx, "R09.4")
    r09_5(ctx)
    from .c07 import r07_4
    r07_4(ctx)
    T.broadcast_expansion(ctx, "R09.6")
    T.column_removal(ctx, "R09.7")
