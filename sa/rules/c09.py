"""C09 - cell formatting follows the data cell.

R09.1 consumption completeness: every declared attribute field reaches an emitter or a structural
consumer; R09.2 binding table (model field <- attribute) at the three constructor sites, which must
agree with each other; R09.3 lookup index (i + row_offset, j) through BroadcastValue.iloc's modular
rule; R09.4 row_offset at every _encode call equals the lower bound of the slice that produced the
segment; R09.5 row space: the row index used for lookup must be the row's position in the table, not
in the page; R09.6 per-page fresh copy (shared with C07); R09.7 attribute columns cut with the
removed index set of the original frame (shared with C08).

R09.2 / R09.3 are read off ONE symbolic evaluation of each of the three model-building functions
(tablecore.TDT: symbolic frame, widths, offset, attribute objects; one generic row i and column j): the
constructor arguments of TextContent / Cell / Row are terms that name the attribute and the index
expressions of the lookup.  R09.1 is set logic over the declared fields and those bindings.
"""
from __future__ import annotations

import ast

from ..pm import unparse
from ..report import Ctx
from . import tablecore as T

TEXT_BIND = {"font": "text_font", "size": "text_font_size", "format": "text_format", "color": "text_color",
             "background_color": "text_background_color", "justification": "text_justification", "indent_first": "text_indent_first",
             "indent_left": "text_indent_left", "indent_right": "text_indent_right", "space": "text_space",
             "space_before": "text_space_before", "space_after": "text_space_after", "convert": "text_convert", "hyphenation": "text_hyphenation"}
CELL_BIND = {"border_left": "border_left", "border_right": "border_right", "border_top": "border_top", "border_bottom": "border_bottom",
             "vertical_justification": "cell_vertical_justification"}
ROW_BIND = {"justification": "cell_justification", "height": "cell_height"}
STRUCTURAL = {"col_rel_width": "Utils._col_widths (column boundaries)", "border_first": "PageFeatureProcessor (page-edge hierarchy)",
              "border_last": "PageFeatureProcessor (page-edge hierarchy)",
              "cell_nrow": "TableAttributes._encode line-count slot (not a rendering attribute)"}
TABLES = {"TextContent": TEXT_BIND, "Cell": CELL_BIND, "Row": ROW_BIND}
SITES = T.SITES


def _site_lookups(ctx: Ctx, short: str):
    """[(model, field, [Lookup], [unrecognised alternatives], value term, call effect, valuation, all effects)] for every bound field of every model built at the site"""
    site, models = T.site_models(ctx, short)
    if isinstance(site, Exception):
        return site, []
    out = []
    for model, kw, e, v, eff in models:
        for fld in TABLES[model]:
            if fld not in kw:
                out.append((model, fld, None, [], None, e, v, eff))
                continue
            val = T._unborder(kw[fld])
            if val is None:
                out.append((model, fld, [], [], None, e, v, eff))
                continue
            lks, other = T.lookups_of(val, site)
            out.append((model, fld, lks, other, val, e, v, eff))
    return site, out


def r09_1_2(ctx: Ctx) -> None:
    """binding table (model field <- attribute): which attribute each constructor argument of TextContent / Cell / Row is looked up in,
    at the three sites, on every path"""
    T.declare(ctx)
    pm = ctx.pm
    ctx.explain("[R09.1] completeness is set logic over the declared fields and the bindings read off those evaluations.")
    consumed: dict[str, set] = {}
    n_sites = 0
    for short in SITES:
        fi = pm.func(short)
        site, rows = _site_lookups(ctx, short)
        if isinstance(site, Exception):
            ctx.gap("R09.2", f"the models built by {short} could not be determined: {site}")
            continue
        kinds = {m for m, *_ in rows}
        n_sites += len(kinds)
        for model in ("TextContent", "Cell", "Row"):
            if model not in kinds:
                continue
            for fld, want in TABLES[model].items():
                seen, missing, undetermined, none_only = set(), 0, [], 0
                for m, f, lks, other, val, e, v, eff in rows:
                    if m != model or f != fld:
                        continue
                    if lks is None:
                        missing += 1
                        continue
                    if val is None:
                        none_only += 1
                        continue
                    for lk in lks:
                        if isinstance(lk.attr, str):
                            seen.add(lk.attr)
                        else:
                            undetermined.append(T.path_of(lk.source)[:60])
                    undetermined.extend(other)
                if missing and not seen:
                    ctx.violation("R09.2", short, f"{model}.{fld} not passed", fi.where(), f"{short}: {model}(...) is built without {fld}; the cell falls back to the model default instead of the attribute {want}")
                    continue
                if not seen:
                    if undetermined:
                        ctx.gap("R09.2", f"{short}: the source `{undetermined[0]}` of {model}.{fld} could not be determined")
                    else:
                        ctx.violation("R09.2", short, f"{model}.{fld} <- None", fi.where(), f"{short}: {model}.{fld} is always None, expected the attribute `{want}`")
                    continue
                for got in sorted(seen):
                    ctx.instance("R09.2", fi.where(), f"{short}: {model}.{fld} <- {got}")
                    if got != want:
                        ctx.violation("R09.2", short, f"{model}.{fld} <- {got}", fi.where(), f"{short}: {model}.{fld} is fed from attribute `{got}`, expected `{want}`")
                    else:
                        consumed.setdefault(want, set()).add(short)
                if undetermined:
                    ctx.gap("R09.2", f"{short}: one source `{undetermined[0]}` of {model}.{fld} could not be determined")
                if missing:
                    ctx.violation("R09.2", short, f"{model}.{fld} not passed", fi.where(), f"{short}: some {model}(...) are built without {fld}")
    if n_sites < 7 and not ctx.deferred_errors:
        ctx.gap("R09.2", f"only {n_sites} of the 7 (site, model) constructions of TextContent/Cell/Row were re-identified")
    # R09.1 completeness
    fields = {}
    for cls in ("TextAttributes", "TableAttributes"):
        for f in pm.classes[cls].fields:
            fields[f] = cls
    for f, cls in sorted(fields.items()):
        if f in consumed:
            ctx.instance("R09.1", pm.cls(cls).path + f":{pm.classes[cls].fields[f].lineno}", f"{cls}.{f} reaches an emitter at {sorted(consumed[f])}")
        elif f in STRUCTURAL:
            ctx.instance("R09.1", pm.cls(cls).path + f":{pm.classes[cls].fields[f].lineno}", f"{cls}.{f} consumed by {STRUCTURAL[f]}")
        elif ctx.deferred_errors and (f in TEXT_BIND.values() or f in CELL_BIND.values() or f in ROW_BIND.values()):
            ctx.instance("R09.1", pm.cls(cls).path + f":{pm.classes[cls].fields[f].lineno}", f"{cls}.{f}: consumption undetermined (encoder not evaluated)")
        else:
            ctx.instance("R09.1", pm.cls(cls).path + f":{pm.classes[cls].fields[f].lineno}", f"{cls}.{f} is accepted and validated but never reaches an emitter")
            ctx.violation("R09.1", f"{cls}.{f}", "never emitted", pm.cls(cls).path + f":{pm.classes[cls].fields[f].lineno}",
                          f"attribute {f} is declared, validated and documented but no encoder reads it: the rendered cells never carry it")
    ctx.floor("R09.1", 30)


def _index_elems(site, e, eff):
    """generic loop variables enclosing a constructor call, outermost first"""
    return [x[2] for x in T._enclosing_loops(e[5], eff, site["fi"].node)]


def r09_3(ctx: Ctx) -> None:
    """lookup index: the entry reaching cell (i, j) of a segment that starts at table row `row_offset` is entry [(i + row_offset) % R][j % C] of
    the attribute (scalar -> every cell, row vector -> its column, matrix -> cell by cell; row-level attributes use column 0): every
    lookup term must be BroadcastValue(value=attribute).iloc(i + row_offset, j) - or the same modular subscript on the attribute itself -
    with exactly these index expressions; BroadcastValue.iloc is verified separately (tablecore.broadcast_iloc)."""
    T.declare(ctx)
    pm = ctx.pm
    for short in SITES:
        fi = pm.func(short)
        site, rows = _site_lookups(ctx, short)
        if isinstance(site, Exception):
            ctx.gap("R09.3", f"the attribute lookups of {short} could not be determined: {site}")
            continue
        ps = T._pos_params(fi)
        names = [a.arg for a in fi.node.args.args]
        off_name = "row_offset" if "row_offset" in names else None
        bad: dict[str, list] = {}
        n = 0
        for model, fld, lks, other, val, e, v, eff in rows:
            if not lks:
                continue
            elems = _index_elems(site, e, eff)
            for lk in lks:
                n += 1
                row, col = lk.row, lk.col
                # expected index expressions
                if short == "TableAttributes._encode":
                    if len(elems) < 1:
                        continue
                    i = elems[0]
                    j = elems[1] if len(elems) > 1 else None
                    ip = T.loop_index_path(i)
                    want_row = {ip: 1, **({off_name: 1} if off_name else {})}
                    want_col = {T.loop_index_path(j): 1} if (j is not None and model != "Row") else {}
                    alt_row = {ip: 1} if fld == "border_right" else want_row     # the right border of the last column is read without the offset (accepted quirk)
                    where = "the cell's own (row + row_offset, column)"
                elif short == "TextAttributes._encode_text":
                    if not elems:
                        continue                                  # the joined line of method 'line': bound, not indexed per row
                    want_row = alt_row = {T.loop_index_path(elems[0]): 1}
                    want_col = {}
                    where = "the row the text belongs to"
                else:
                    want_row = alt_row = {}
                    want_col = {"col_idx": 1} if "col_idx" in names else None
                    where = "row 0 of the column the spanning row inherits from"
                tag = f"{model}.{fld} <- {lk.attr}[{T.path_of(lk.row_term)[:40]}][{T.path_of(lk.col_term)[:30]}] via {lk.via}"
                if lk.via == "expanded":
                    fs = T.frame_of_shape(lk.dim) if lk.dim is not None else None
                    dim_txt = T.path_of(lk.dim)[:40]
                    bad.setdefault("expanded", []).append(
                        f"{model}.{fld} is read from `BroadcastValue(value={lk.attr}, dimension={dim_txt}).to_list()` at row `{T.path_of(lk.row_term)[:50]}`: the expansion has only as many rows "
                        "as the segment handed in, so the index is reduced modulo the segment's height and a full matrix is cut down to the segment's first rows")
                    continue
                if row is None or col is None or want_col is None:
                    ctx.gap("R09.3", f"{short}: index expressions of the lookup {tag} are not linear in the loop variables")
                    continue
                if (row != want_row and row != alt_row) or col != want_col:
                    kind = "row" if (row != want_row and row != alt_row) else "column"
                    bad.setdefault(kind, []).append(f"{model}.{fld} is looked up at [{T.path_of(lk.row_term)[:50]}][{T.path_of(lk.col_term)[:40]}] (closure arguments bound: row {row}, column {col}); "
                                                    f"expected row {want_row}, column {want_col}")
        ctx.instance("R09.3", fi.where(), f"{short}: {n} attribute lookups (all paths) checked against [(i + row_offset) % R][j % C]")
        for kind, lst in bad.items():
            ctx.violation("R09.3", short, f"lookup ({kind})", fi.where(),
                          f"{short}: {len(lst)} attribute entries are not looked up at {where}, e.g. {lst[0]}"
                          + (" (a segment of a paginated table starts at row_offset)" if short == "TableAttributes._encode" and kind == "row" else ""))
        if not n:
            ctx.gap("R09.3", f"{short}: no attribute lookup was re-identified")
    e = pm.func("TableAttributes._encode")
    if "row_offset" not in [a.arg for a in e.node.args.args]:
        ctx.violation("R09.3", e.short, "no row_offset", e.where(), "_encode can no longer be told where its segment starts")
    T.broadcast_iloc(ctx, "R09.3")


def r09_5(ctx: Ctx) -> None:
    """row space: lookups need the row's position in the TABLE; page.data rows are PAGE-relative"""
    pm = ctx.pm
    rb = pm.func("PageRenderer._render_body")
    pc = pm.cls("PageContext")
    origin_fields = [f for f in pc.fields if f in ("start_row", "row_offset", "first_row", "absolute_start", "start_index", "row_start")]
    proc = unparse(pm.func("PageFeatureProcessor._apply_pagination_borders").node)
    post = unparse(pm.func("UnifiedRTFEncoder._apply_data_post_processing").node)
    attrs_sliced_per_page = any(k in proc + post for k in ("slice_rows", "[start_row:", "row_slice", "rows_of_page"))
    offs = [next((unparse(k.value) for k in c.keywords if k.arg == "row_offset"), "0") for c in ast.walk(rb.node)
            if isinstance(c, ast.Call) and isinstance(c.func, ast.Attribute) and c.func.attr == "_encode"]
    uses_origin = any(any(f in o for f in origin_fields) for o in offs)
    ctx.instance("R09.5", rb.where(), f"_render_body row offsets {offs}; PageContext carries an absolute row origin: {origin_fields or 'no'}; attributes sliced per page: {attrs_sliced_per_page}")
    if not uses_origin and not attrs_sliced_per_page:
        ctx.violation("R09.5", rb.short, "page-relative row offset", rb.where(),
                      "attribute rows are looked up with a page-relative row index (row_offset is the position inside the page and PageContext carries no absolute origin), "
                      "while the attribute matrices describe the whole table: on page 2 a full matrix is read from its row 0 again")


def check(ctx: Ctx) -> None:
    ctx.explain(
        "The three encoders that build TextContent/Cell/Row (TableAttributes._encode, TextAttributes._encode_text, encode_spanning_row) are each "
        "evaluated once over symbolic inputs (tablecore.TDT: symbolic frame, widths, row_offset and attribute objects; one generic row i and one "
        "generic column j; local lookup closures summarised once and composed with the arguments of each call). R09.2 the 14+5+2 (model field <- "
        "attribute) bindings are the attribute names in the constructor-argument terms, on every path; R09.1 every annotated field of "
        "TextAttributes/TableAttributes reaches a model field that way or a listed structural consumer; R09.3 every lookup term is "
        "BroadcastValue(value=attribute).iloc(i + row_offset, j) (row-level: column 0; spanning row: (0, col_idx)) with exactly these linear index "
        "forms, and BroadcastValue.iloc returns value[r % R][c % C] for symbolic value, r, c; R09.4 row_offset of every _encode call in "
        "_render_body = the cursor the segment starts from (generic boundary iteration + abstracted loop); R09.5 row-space agreement; R09.6 "
        "per-page deep copy and alias-free, exactly shaped expansion (C07 R07.4; BroadcastValue.to_list interpreted in a list-shape/alias domain "
        "over a symbolic block and dimension); R09.7 attribute columns cut by original-frame positions (structural rule, C08 R08.3).")
    ctx.assume("pydantic validates attribute shapes; BroadcastValue is the only lookup path; its `value` validator normalises scalars and flat lists to nested lists, so "
               "value[r % len(value)][c % len(value[0])] is the documented scalar / row-vector / matrix rule")
    ctx.undecided("equality of each emitted property value with the attribute value for concrete tables (run-time)")
    r09_1_2(ctx)
    r09_3(ctx)
    T.cursor_render_body(ctx, "R09.4")
    r09_5(ctx)
    from .c07 import r07_4
    r07_4(ctx)
    T.broadcast_expansion(ctx, "R09.6")
    T.column_removal(ctx, "R09.7")
