"""C07 - table edges are closed by the documented border hierarchy on every page.

R07.1 decision table of PageFeatureProcessor._apply_pagination_borders (+helpers) over every
configuration of (first, last, header list, footnote/source presence, as_table, placement) against
the documented three-tier hierarchy; R07.2 header top edge site in PageRenderer._render_column_headers;
R07.3 consumers of the component border override; R07.4 per-page attributes are a fresh deep copy and
BroadcastValue.to_list/update_cell create per-row lists (no aliasing between rows); R07.5 multi-section
first/last clearing.
"""
from __future__ import annotations

import ast
import itertools

from ..dtab import DT, NeedAtom, Sym, Unsupported
from ..pm import AnalysisError, dotted, unparse, walk_no_nested
from ..report import Ctx

PL = ["first", "last", "all"]
FN = "PageFeatureProcessor._apply_pagination_borders"


def shown(p, first, last) -> bool:
    return p == "all" or (p == "first" and first) or (p == "last" and last)


def style_src(s) -> str:
    s = str(s)
    if s.startswith("document.rtf_page.border_first"):
        return "page.first"
    if s.startswith("document.rtf_page.border_last"):
        return "page.last"
    if s.startswith("document.rtf_body.border_first") or s.startswith("border_first_row"):
        return "body.first"
    if s.startswith("document.rtf_body.border_last"):
        return "body.last"
    if s.startswith("document.rtf_body.border_top"):
        return "body.top(user)"
    return "?" + s[:40]


def row_of(r) -> str:
    r = str(r)
    if r == "0":
        return "data[0]"
    if r.replace(" ", "") in ("page.data.height-1",):
        return "data[-1]"
    return "data[" + r + "]"


def expected(first, last, Hl, F, Fa, pf, S, Sa, ps):
    fn_row = F and Fa and shown(pf, first, last)
    src_row = S and Sa and shown(ps, first, last)
    last_row = "source" if src_row else ("footnote" if fn_row else "data[-1]")
    if first and Hl:
        top = {("data[0]", "top", "body.first")}        # header[0] <- page.first is R07.2's site
    elif first:
        top = {("data[0]", "top", "page.first")}
    else:
        top = {("data[0]", "top", "body.first")}
    bottom = {(last_row, "bottom", "page.last" if last else "body.last")}
    return top, bottom


def r07_1(ctx: Ctx) -> None:
    pm = ctx.pm
    fi = pm.func(FN)
    fixed = {
        "bool(document.rtf_page.border_first)": [True], "bool(document.rtf_page.border_last)": [True],
        "bool(document.rtf_body.border_first)": [True], "bool(document.rtf_body.border_last)": [True],
        "isinstance(document.rtf_body.border_last, list)": [True], "isinstance(document.rtf_body.border_first, list)": [True],
        "page.data.height == 0": [False],
        # attributes of the per-page copy: their own truthiness only selects initialisation code
        "bool(page.table_attrs)": [True], "bool(document.rtf_body)": [True],
        "bool(copy(page.table_attrs).border_first)": [True], "bool(copy(page.table_attrs).border_last)": [True],
        "bool(copy(page.table_attrs).border_top)": [True], "bool(copy(page.table_attrs).border_bottom)": [True],
        # no user border_top wider than border_first (that override is the documented per-cell behaviour)
        "bool(document.rtf_body.border_top)": [False],
        "∀col_idx∈range(page.data.width) < len(document.rtf_body.border_first[0])": [True],
        "page.is_first_page": [True, False], "page.is_last_page": [True, False],
        "document.rtf_page.page_footnote": PL, "document.rtf_page.page_source": PL,
    }
    dt = DT(pm, atoms=fixed, effect_calls={"_apply_border_to_cell"},
            classes={"document": "RTFDocument", "page": "PageContext", "self": "PageFeatureProcessor",
                     "document.rtf_body": "RTFBody", "document.rtf_page": "RTFPage", "document.rtf_footnote": "RTFFootnote",
                     "document.rtf_source": "RTFSource", "page.table_attrs": "TableAttributes"},
            max_atoms=40)
    args = {"self": Sym("self", "PageFeatureProcessor"), "document": Sym("document", "RTFDocument"), "page": Sym("page", "PageContext")}
    try:
        rows = dt.table(fi, args, limit=60000)
    except Unsupported as e:
        raise AnalysisError(f"border decision logic uses a construct outside the decision-table subset: {e}")
    ctx.extra["table_rows"] = len(rows)
    ctx.extra["atoms"] = sorted(dt.discovered)
    ctx.extra["exhaustive"] = True
    # project each leaf to the semantic atoms
    def b(v, key, default=None):
        return v.get(key, default)
    classes: dict[tuple, list] = {}
    n_cfg = 0
    seen_cfg = set()
    unknown_atoms = set()
    KNOWN_PREFIX = ("page.is_", "document.rtf_page.", "bool(document.rtf_column_header)", "bool(document.rtf_footnote", "bool(document.rtf_source",
                    "bool(page.table_attrs)", "bool(page.table_attrs.", "bool(document.rtf_body.", "isinstance(document.rtf_body", "page.data.height == 0",
                    "len(document.rtf_column_header) > 0", "bool(document.rtf_footnote.as_table)", "bool(document.rtf_source.as_table)",
                    "len(document.rtf_body.border_top[0])", "∀col_idx", "bool(document.rtf_body.border_top")
    for v, run in rows:
        for k in v:
            if not k.startswith(KNOWN_PREFIX) and "border_top" not in k and "border_bottom" not in k and "border_first_row" not in k:
                unknown_atoms.add(k)
        first, last = v["page.is_first_page"], v["page.is_last_page"]
        Hl = bool(v.get("bool(document.rtf_column_header)", False)) and v.get("len(document.rtf_column_header) > 0", True)
        F = bool(v.get("bool(document.rtf_footnote)", False)) and bool(v.get("bool(document.rtf_footnote.text)", False))
        S = bool(v.get("bool(document.rtf_source)", False)) and bool(v.get("bool(document.rtf_source.text)", False))
        Fa = v.get("bool(document.rtf_footnote.as_table)")
        Sa = v.get("bool(document.rtf_source.as_table)")
        pf = v.get("document.rtf_page.page_footnote")
        ps = v.get("document.rtf_page.page_source")
        # effects -> normalised (target, side, style source)
        got_top, got_bottom = set(), set()
        for e in run.effects:
            if e[0] == "call" and e[1] == "_apply_border_to_cell":
                a = e[3]
                row, side, style = row_of(a[1]), str(a[3]), style_src(a[4])
                (got_top if side == "top" else got_bottom).add((row, side, style))
            elif e[0] == "store" and e[1] == "page.component_borders":
                tgt = e[2].strip("[]")
                got_bottom.add((tgt, "bottom", style_src(e[3])))
        # the user's own border_top overriding body.first on selected columns is the documented per-cell behaviour
        got_top = {(r, s, "body.first" if st == "body.top(user)" else st) for r, s, st in got_top}
        # enumerate the unconsulted semantic atoms (the code did not look at them, so the result is the same for all values)
        for Fa_, Sa_, pf_, ps_ in itertools.product([Fa] if Fa is not None else [True, False], [Sa] if Sa is not None else [True, False],
                                                     [pf] if pf is not None else PL, [ps] if ps is not None else PL):
            if not F and Fa is None and Fa_ is False:
                continue     # as_table irrelevant without a footnote: count the configuration once
            if not S and Sa is None and Sa_ is False:
                continue
            cfg = (first, last, Hl, F, Fa_ if F else None, pf_ if F else None, S, Sa_ if S else None, ps_ if S else None)
            if cfg in seen_cfg:
                continue
            seen_cfg.add(cfg)
            n_cfg += 1
            etop, ebot = expected(first, last, Hl, F, bool(Fa_), pf_, S, bool(Sa_), ps_)
            if got_top != etop:
                key = ("top", tuple(sorted(etop)), tuple(sorted(got_top)), f"first={first}")
                classes.setdefault(key, []).append(cfg)
            if got_bottom != ebot:
                key = ("bottom", tuple(sorted(ebot)), tuple(sorted(got_bottom)), f"last={last}")
                classes.setdefault(key, []).append(cfg)
    ctx.extra["configurations"] = n_cfg
    ctx.instance("R07.1", fi.where(), f"decision table of {FN}: {len(rows)} leaves over {len(dt.discovered)} atoms, projected to {n_cfg} configurations of "
                 "(first,last,header,footnote{text,as_table,placement},source{…}); compared with the three-tier oracle")
    for k in sorted(unknown_atoms):
        ctx.instance("R07.1", fi.where(), f"border logic consults an atom outside the documented hierarchy: {k}")
    for key, cfgs in sorted(classes.items(), key=lambda kv: str(kv[0])):
        edge, exp, got, flag = key
        ex = cfgs[0]
        exdesc = dict(zip(("first", "last", "header", "footnote", "fn_as_table", "page_footnote", "source", "src_as_table", "page_source"), ex))
        ctx.instance("R07.1", fi.where(), f"{edge} edge disagreement class ({len(cfgs)} configurations): expected {list(exp)} got {list(got)}; e.g. {exdesc}")
        ctx.violation("R07.1", FN, f"{edge}|expected={list(exp)}|got={list(got)}|{flag}", fi.where(),
                      f"{edge} edge: on {len(cfgs)} configuration(s) the hierarchy requires {list(exp)} but the code applies {list(got) or 'nothing'}; "
                      f"e.g. {exdesc}", configurations=len(cfgs), example=exdesc)
    if n_cfg < 300:
        raise AnalysisError(f"only {n_cfg} configurations enumerated (>= 300 expected): atoms were not recognised")


def r07_2(ctx: Ctx) -> None:
    pm = ctx.pm
    fi = pm.func("PageRenderer._render_column_headers")
    stores = [a for a in ast.walk(fi.node) if isinstance(a, ast.Assign) and any(isinstance(t, ast.Attribute) and t.attr == "border_top" for t in a.targets)]
    if len(stores) != 1:
        ctx.violation("R07.2", fi.short, f"border_top stores x{len(stores)}", fi.where(), "the header top edge is not set at exactly one site")
        return
    st = stores[0]
    guard = None
    p = getattr(st, "_parent", None)
    while p is not None and p is not fi.node:
        if isinstance(p, ast.If):
            guard = p.test
        p = getattr(p, "_parent", None)
    gtxt = unparse(guard) if guard is not None else "<none>"
    parts = {x.strip() for x in gtxt.replace("\n", " ").split(" and ")}
    need = {"page.is_first_page", "i == 0", "document.rtf_page.border_first"}
    val = unparse(st.value)
    ok_guard = need <= parts
    ok_val = "update_row(0, [document.rtf_page.border_first]" in val and unparse(st.targets[0]).startswith("header_copy.")
    ctx.instance("R07.2", fi.where(st), f"header top edge: guard `{gtxt}`; value `{val[:90]}`")
    if not ok_guard:
        ctx.violation("R07.2", fi.short, "guard " + gtxt, fi.where(st), f"rtf_page.border_first is applied to the header under `{gtxt}`; required: first page ∧ first header row ∧ border configured")
    if not ok_val:
        ctx.violation("R07.2", fi.short, "value " + val[:60], fi.where(st), "the top edge of the first header row does not receive rtf_page.border_first on row 0 of the per-page header copy")


def r07_3(ctx: Ctx) -> None:
    pm = ctx.pm
    r = pm.func("PageRenderer.render")
    for comp, callee in (("footnote", "encode_footnote"), ("source", "encode_source")):
        calls = [c for c in walk_no_nested(r.node) if isinstance(c, ast.Call) and dotted(c.func).split(".")[-1] == callee]
        ok = False
        if len(calls) == 1:
            kw = {k.arg: unparse(k.value) for k in calls[0].keywords}
            src = kw.get("border_style")
            env = {unparse(a.targets[0]): unparse(a.value) for a in ast.walk(r.node) if isinstance(a, ast.Assign) and len(a.targets) == 1}
            # border_style is assigned in both blocks; take the assignment in the same block
            blk = getattr(calls[0], "_parent", None)
            while blk is not None and not isinstance(blk, ast.If):
                blk = getattr(blk, "_parent", None)
            local = {unparse(a.targets[0]): unparse(a.value) for s in (blk.body if blk is not None else []) for a in ast.walk(s) if isinstance(a, ast.Assign)}
            ok = src == "border_style" and local.get("border_style") == f"page.component_borders.get('{comp}')"
            ctx.instance("R07.3", r.where(calls[0]), f"render: {callee}(border_style={local.get('border_style')})")
        if not calls:
            ctx.gap("R07.3", f"the call of {callee} could not be re-identified in PageRenderer.render")
        elif not ok:
            ctx.violation("R07.3", r.short, f"{callee} border override", r.where(), f"render does not pass page.component_borders['{comp}'] to {callee} as border_style")
        f = pm.func("RTFEncodingService." + callee)
        t = unparse(f.node)
        ok2 = "if border_style:" in t and "rtf_attrs = rtf_attrs.model_copy()" in t and "rtf_attrs.border_bottom = [[border_style]]" in t
        ctx.instance("R07.3", f.where(), f"{callee}: override sets border_bottom of a copy: {ok2}")
        if not ok2:
            ctx.violation("R07.3", f.short, "override", f.where(), f"{callee} no longer applies the override as the bottom border of (a copy of) the component row")


def r07_4(ctx: Ctx) -> None:
    pm = ctx.pm
    fi = pm.func(FN)
    t = unparse(fi.node)
    ok = "page_attrs = deepcopy(base_attrs)" in t
    ctx.instance("R07.4", fi.where(), f"per-page attributes are `deepcopy(base_attrs)`: {ok}")
    if not ok:
        ctx.violation("R07.4", fi.short, "no deepcopy", fi.where(), "page borders are written into attributes shared with other pages (no per-page deep copy)")
    ap = pm.func("PageFeatureProcessor._apply_border_to_cell")
    ta = unparse(ap.node)
    ok = "BroadcastValue(value=current_borders, dimension=page_shape)" in ta and "update_cell(row_idx, col_idx, border_style)" in ta and \
        "setattr(page_attrs, border_attr, border_broadcast.value)" in ta and "border_attr = f'border_{border_side}'" in ta
    ctx.instance("R07.4", ap.where(), f"_apply_border_to_cell: expand to page shape, update one cell, store back: {ok}")
    if not ok:
        ctx.violation("R07.4", ap.short, "cell update", ap.where(), "a single edge is no longer written by expanding the attribute to the page shape and updating exactly (row, col)")
    # to_list must build a fresh list per row; update_cell writes exactly [row][col] of it
    tl = pm.func("BroadcastValue.to_list")
    rets = [r for r in walk_no_nested(tl.node) if isinstance(r, ast.Return) and r.value is not None]
    fresh = True
    desc = []
    for r in rets:
        v = r.value
        txt = unparse(v)
        desc.append(txt[:60])
        if isinstance(v, ast.Constant) or txt == "self.value":
            continue        # None / the stored value itself when no dimension is requested
        per_row = isinstance(v, ast.ListComp) and isinstance(v.elt, (ast.Subscript, ast.Call, ast.List, ast.ListComp, ast.BinOp))
        if not per_row:
            fresh = False
    uses_mult = "* row_repeats" in unparse(tl.node)
    ctx.instance("R07.4", tl.where(), f"BroadcastValue.to_list returns {desc}; every expanded row is a new list: {fresh}")
    if not fresh:
        ctx.violation("R07.4", tl.short, "aliased rows " + " | ".join(desc), tl.where(),
                      "BroadcastValue.to_list can return rows that are the same list object (rows built by list repetition are aliases); "
                      "writing one cell's border then changes that column in every row")
    uc = pm.func("BroadcastValue.update_cell")
    tu = unparse(uc.node)
    ok = "self.value = self.to_list()" in tu and "self.value[row_index][column_index] = cell_value" in tu
    ctx.instance("R07.4", uc.where(), f"update_cell expands then writes [row][col]: {ok}")
    if not ok:
        ctx.violation("R07.4", uc.short, "update_cell", uc.where(), "update_cell no longer writes exactly value[row][col] of the expanded matrix")
    # interior cells: no other store to border_* on the encode path outside the processor / renderer header copy / footnote override
    allowed = {FN, "PageFeatureProcessor._apply_border_to_cell", "PageRenderer._render_column_headers", "RTFEncodingService.encode_footnote",
               "RTFEncodingService.encode_source", "RTFBody._set_border_defaults", "UnifiedRTFEncoder._encode_multi_section",
               "RTFEncodingService.prepare_dataframe_for_body_encoding"}
    for f2 in pm.iter_funcs():
        for a in walk_no_nested(f2.node):
            if isinstance(a, ast.Assign):
                for tg in a.targets:
                    if isinstance(tg, ast.Attribute) and tg.attr in ("border_top", "border_bottom", "border_left", "border_right"):
                        ctx.instance("R07.4", f2.where(a), f"{f2.short}: store to {tg.attr}", nontrivial=False)
                        if f2.short not in allowed:
                            ctx.violation("R07.4", f2.short, "store " + unparse(tg), f2.where(a), f"{f2.short} rewrites {tg.attr}; interior cells must carry exactly the user's borders")
    enc = pm.func("TableAttributes._encode")
    te = unparse(enc.node)
    for side in ("left", "top", "bottom"):
        ok = f"border_{side}=Border(style=get_broadcast_value('border_{side}', i, j))" in te
        if not ok:
            ctx.violation("R07.4", enc.short, f"border_{side} source", enc.where(), f"data cells do not take border_{side} from the attribute at their own (row, col)")
    ok = "border_right = Border(style=BroadcastValue(value=self.border_right, dimension=dim).iloc(i, j))" in te
    ctx.instance("R07.4", enc.where(), f"data cell borders read from border_left/top/bottom/right at (i, j): {ok}")


def r07_5(ctx: Ctx) -> None:
    pm = ctx.pm
    fi = pm.func("UnifiedRTFEncoder._encode_multi_section")
    t = unparse(fi.node)
    a = "if i > 0:\n            section_page.border_first = None" in t.replace("    " * 3, "            ")
    txt = t
    ok1 = "section_page = document.rtf_page.model_copy()" in txt and "section_page.border_first = None" in txt and "section_page.border_last = None" in txt
    g1 = g2 = None
    for n in ast.walk(fi.node):
        if isinstance(n, ast.If) and any(isinstance(s, ast.Assign) and "section_page.border_first" in unparse(s) for s in n.body):
            g1 = unparse(n.test)
        if isinstance(n, ast.If) and any(isinstance(s, ast.Assign) and "section_page.border_last" in unparse(s) for s in n.body):
            g2 = unparse(n.test)
    ctx.instance("R07.5", fi.where(), f"multi-section: border_first cleared under `{g1}`, border_last cleared under `{g2}`, on a copy of rtf_page: {ok1}")
    if not ok1 or g1 != "i > 0" or g2 != "i < len(df_list) - 1":
        ctx.violation("R07.5", fi.short, f"section borders {g1} / {g2}", fi.where(),
                      "multi-section documents must clear rtf_page.border_first for sections after the first and border_last for sections before the last (on a copy)")
    if "'rtf_page': section_page" not in txt:
        ctx.violation("R07.5", fi.short, "section page not used", fi.where(), "the per-section page copy is not the one the section is encoded with")


def r07_6(ctx: Ctx) -> None:
    """every page goes through the processor, and the processed page is what gets rendered"""
    pm = ctx.pm
    fi = pm.func("UnifiedRTFEncoder._encode_body_section")
    loops = [n for n in walk_no_nested(fi.node) if isinstance(n, ast.For) and "pages" in unparse(n.iter)]
    main = [lp for lp in loops if any(isinstance(c, ast.Call) and dotted(c.func).endswith("renderer.render") for c in ast.walk(lp))]
    if not main:
        ctx.violation("R07.6", fi.short, "no page loop", fi.where(), "pages are no longer rendered one by one in _encode_body_section")
        return
    lp = main[0]
    pv = lp.target.elts[-1].id if isinstance(lp.target, ast.Tuple) else (lp.target.id if isinstance(lp.target, ast.Name) else "page")
    proc = [s for s in lp.body if isinstance(s, ast.Assign) and isinstance(s.value, ast.Call) and dotted(s.value.func).endswith("feature_processor.process")]
    cond_proc = [c for c in ast.walk(lp) if isinstance(c, ast.Call) and dotted(c.func).endswith("feature_processor.process")]
    rend = [c for c in ast.walk(lp) if isinstance(c, ast.Call) and dotted(c.func).endswith("renderer.render")]
    ok = len(proc) == 1 and len(cond_proc) == 1 and [unparse(a) for a in proc[0].value.args] == ["document", pv]
    res = unparse(proc[0].targets[0]) if proc else "?"
    ok_r = len(rend) == 1 and [unparse(a) for a in rend[0].args] == ["document", res] and not any(isinstance(a, (ast.If, ast.Try)) for a in _anc(rend[0], lp))
    skips = [x for s in lp.body for x in ast.walk(s) if isinstance(x, (ast.Continue, ast.Break))]
    ctx.instance("R07.6", fi.where(lp), f"page loop: process(document, {pv}) unconditional at loop top level: {ok}; render(document, {res}) unconditional: {ok_r}; continue/break: {len(skips)}")
    if not ok or skips:
        ctx.violation("R07.6", fi.short, "processor not applied to every page", fi.where(lp),
                      "PageFeatureProcessor.process is not applied unconditionally to every page (cached/skipped pages keep no border overrides for footnote/source rows)")
    if not ok_r:
        ctx.violation("R07.6", fi.short, "render argument", fi.where(lp), "the rendered page is not the processor's result for that page")
    p = pm.func("PageFeatureProcessor.process")
    t = unparse(p.node)
    ok_p = "page.final_body_attrs = self._apply_pagination_borders(document, page)" in t and "return page" in t
    ctx.instance("R07.6", p.where(), f"process stores _apply_pagination_borders(document, page) into page.final_body_attrs and returns the page: {ok_p}")
    if not ok_p:
        ctx.violation("R07.6", p.short, "process body", p.where(), "process no longer computes this page's border attributes from (document, page)")
    rb = pm.func("PageRenderer._render_body")
    first = next((unparse(a.value) for a in walk_no_nested(rb.node) if isinstance(a, ast.Assign) and unparse(a.targets[0]) == "page_attrs"), "?")
    ctx.instance("R07.6", rb.where(), f"_render_body uses page_attrs = {first}")
    if not first.startswith("page.final_body_attrs or"):
        ctx.violation("R07.6", rb.short, "page_attrs = " + first, rb.where(), "the body is not rendered with the page's own finalized border attributes")


def _anc(n, stop):
    p = getattr(n, "_parent", None)
    while p is not None and p is not stop:
        yield p
        p = getattr(p, "_parent", None)


def check(ctx: Ctx) -> None:
    ctx.explain(
        "R07.1 the border logic (_apply_pagination_borders with _apply_body_border_first, _apply_footnote_source_borders and "
        "_should_show_element inlined) is evaluated as a decision table over symbolic configuration atoms with lazy atom "
        "discovery; every leaf's effects (which row, which side, which style source; component border overrides) are compared "
        "with the documented three-tier hierarchy on every configuration of first/last x header x footnote{text,as_table,"
        "placement} x source{…} (exhaustive). R07.2 header top-edge site. R07.3 override consumers. R07.4 per-page deep copy, "
        "single-cell update through per-row-fresh matrices, no other border stores, data cells read their own (i,j). "
        "R07.5 multi-section first/last clearing.")
    ctx.assume("a configured column-header list renders at least one header row on the first page (the Hl/Hr distinction of DESIGN.md appendix C is not decided)")
    ctx.assume("border styles rtf_page.border_first/last and rtf_body.border_first/last are non-empty (when empty there is nothing to apply)")
    ctx.undecided("border widths and colours (never emitted, see C09); page_by without column headers (excluded by the property for the top-edge clause)")
    r07_1(ctx)
    r07_2(ctx)
    r07_3(ctx)
    r07_4(ctx)
    from .tablecore import broadcast_expansion
    broadcast_expansion(ctx, "R07.4")
    r07_5(ctx)
    r07_6(ctx)
