"""C07 - table edges are closed by the documented border hierarchy on every page.

R07.1 decision table of PageFeatureProcessor._apply_pagination_borders (+helpers) over every
configuration of (first, last, header list, footnote/source presence, as_table, placement) against
the documented three-tier hierarchy; R07.2 header top edge in PageRenderer._render_column_headers;
R07.3 consumers of the component border override; R07.4 per-page attributes are a fresh deep copy and
BroadcastValue.to_list/update_cell create per-row lists (no aliasing between rows); R07.5 multi-section
first/last clearing; R07.6 every page goes through the processor before it is rendered.

R07.2-R07.5 do not look at statement shapes: the functions are evaluated abstractly (FlowDT of c06: the syntax tree is
interpreted over symbolic documents, every consulted condition enumerated, a loop over a symbolic collection as ONE
generic iteration with the atoms `is first` / `is last`; nothing of the repository is imported) and the rules judge the
stores, copies and calls of the resulting summary.  The row-identity part of R07.4 is an ownership analysis of the
expressions BroadcastValue.to_list returns.  R07.6 is a path property of the page loop (CFG).
"""
from __future__ import annotations

import ast
import itertools

import re

from ..astmatch import alternatives, assignments, leaves
from ..dtab import DT, NeedAtom, Sym, Unsupported
from ..pm import AnalysisError, dotted, unparse, walk_no_nested
from ..report import Ctx

PL = ["first", "last", "all"]
FN = "PageFeatureProcessor._apply_pagination_borders"


def shown(p, first, last) -> bool:
    return p == "all" or (p == "first" and first) or (p == "last" and last)


def style_src(s) -> str:
    s = str(s)
    if s.startswith("document.rtf_page.border_first"):
        return "page.first"
    if s.startswith("document.rtf_page.border_last"):
        return "page.last"
    if s.startswith("document.rtf_body.border_first") or s.startswith("border_first_row"):
        return "body.first"
    if s.startswith("document.rtf_body.border_last"):
        return "body.last"
    if s.startswith("document.rtf_body.border_top"):
        return "body.top(user)"
    return "?" + s[:40]


def row_of(r) -> str:
    r = str(r)
    if r == "0":
        return "data[0]"
    if r.replace(" ", "") in ("page.data.height-1",):
        return "data[-1]"
    return "data[" + r + "]"


def expected(first, last, Hl, F, Fa, pf, S, Sa, ps, styles=(True, True, True, True)):
    """styles = non-emptiness of (rtf_page.border_first, rtf_page.border_last, rtf_body.border_first, rtf_body.border_last): an edge
    whose governing style is empty ('' = no border) gets nothing -- in particular NOT the style of another tier"""
    p_first, p_last, b_first, b_last = styles
    fn_row = F and Fa and shown(pf, first, last)
    src_row = S and Sa and shown(ps, first, last)
    last_row = "source" if src_row else ("footnote" if fn_row else "data[-1]")
    if first and Hl:
        top = {("data[0]", "top", "body.first")} if b_first else set()        # header[0] <- page.first is R07.2's site
    elif first:
        top = {("data[0]", "top", "page.first")} if p_first else set()
    else:
        top = {("data[0]", "top", "body.first")} if b_first else set()
    bottom = {(last_row, "bottom", "page.last" if last else "body.last")} if (p_last if last else b_last) else set()
    return top, bottom


def border_writer_roles(pm):
    """the helper of PageFeatureProcessor that writes a border into the page attributes, recognised by ROLE: it calls
    <BroadcastValue>.update_cell(row, column, style).  Returns (FuncInfo, roles) with roles = parameter name of
    'attrs' / 'row' / 'col' (None when the helper loops over all columns of the row) / 'side' / 'style' (one style, or one style per
    column when col is None) / 'shape'; None when no such helper or its roles cannot be read off"""
    for f in pm.iter_funcs():
        if f.cls != "PageFeatureProcessor":
            continue
        upd = [c for c in walk_no_nested(f.node) if isinstance(c, ast.Call) and isinstance(c.func, ast.Attribute) and c.func.attr == "update_cell" and len(c.args) == 3]
        if len(upd) != 1:
            continue
        params = _required(f)
        asg = assignments(f.node)

        def param_of(e):
            return e.id if isinstance(e, ast.Name) and e.id in params else None

        def loop_source(e):
            """(parameter iterated with enumerate, position in the target) when e is a loop variable of `for i, x in enumerate(P)`"""
            if not isinstance(e, ast.Name):
                return None
            for lp in walk_no_nested(f.node):
                if isinstance(lp, ast.For) and isinstance(lp.target, (ast.Tuple, ast.List)) and len(lp.target.elts) == 2 and isinstance(lp.iter, ast.Call) \
                        and dotted(lp.iter.func) == "enumerate" and lp.iter.args and param_of(lp.iter.args[0]):
                    for k, t in enumerate(lp.target.elts):
                        if isinstance(t, ast.Name) and t.id == e.id:
                            return param_of(lp.iter.args[0]), k
            return None
        r_, c_, s_ = upd[0].args
        roles = {"row": param_of(r_), "col": param_of(c_), "style": param_of(s_)}
        if roles["style"] is None and roles["col"] is None:
            cs, ss = loop_source(c_), loop_source(s_)
            if cs and ss and cs[0] == ss[0] and (cs[1], ss[1]) == (0, 1):
                roles["style"] = ss[0]                      # one style per column: every column of the row is written
        side = None
        for j in ast.walk(f.node):
            if isinstance(j, ast.JoinedStr) and any(isinstance(x, ast.Constant) and "border_" in str(x.value) for x in j.values):
                for x in j.values:
                    if isinstance(x, ast.FormattedValue) and param_of(x.value):
                        side = param_of(x.value)
        roles["side"] = side
        cons = [c for c in walk_no_nested(f.node) if isinstance(c, ast.Call) and dotted(c.func).split(".")[-1] == "BroadcastValue"]
        dim = next((k.value for c in cons for k in c.keywords if k.arg == "dimension"), None)
        roles["shape"] = param_of(dim) if dim is not None else None
        rest = [p_ for p_ in params if p_ not in roles.values()]
        roles["attrs"] = rest[0] if len(rest) == 1 else (params[0] if params and params[0] not in roles.values() else None)
        if None in (roles["row"], roles["side"], roles["style"], roles["attrs"]):
            continue
        roles["params"] = params
        _ = asg
        return f, roles
    return None


def _style_terms(x) -> list[str]:
    """the style term(s) an argument stands for: a single style, or a per-column list `[style] * width` / `[style, ...]`"""
    if isinstance(x, (list, tuple)):
        return [str(y) for y in x] or ["?empty"]
    m = re.fullmatch(r"\[\s*'(.*)'\s*\] \* .*", str(x))
    return [m.group(1)] if m else [str(x)]


def r07_1(ctx: Ctx) -> None:
    pm = ctx.pm
    fi = pm.func(FN)
    got_w = border_writer_roles(pm)
    if got_w is None:
        ctx.gap("R07.1", "the helper that writes one border edge (…update_cell(row, column, style) on the expanded border_<side>) could not be re-identified by role")
        return
    writer, roles = got_w
    wname = writer.short.split(".")[-1]
    fixed = {
        # '' (no border) is a valid value of the four tier styles: their emptiness is enumerated
        "bool(document.rtf_page.border_first)": [True, False], "bool(document.rtf_page.border_last)": [True, False],
        "bool(document.rtf_body.border_first)": [True, False], "bool(document.rtf_body.border_last)": [True, False],
        "isinstance(document.rtf_body.border_last, list)": [True], "isinstance(document.rtf_body.border_first, list)": [True],
        "page.data.height == 0": [False],
        # attributes of the per-page copy: their own truthiness only selects initialisation code
        "bool(page.table_attrs)": [True], "bool(document.rtf_body)": [True],
        "bool(copy(page.table_attrs).border_first)": [True], "bool(copy(page.table_attrs).border_last)": [True],
        "bool(copy(page.table_attrs).border_top)": [True], "bool(copy(page.table_attrs).border_bottom)": [True],
        "bool(page.table_attrs.border_first)": [True], "bool(page.table_attrs.border_last)": [True],          # the same when the attributes are not copied (R07.4's finding)
        "bool(page.table_attrs.border_top)": [True], "bool(page.table_attrs.border_bottom)": [True],
        # no user border_top wider than border_first (that override is the documented per-cell behaviour)
        "bool(document.rtf_body.border_top)": [False],
        "∀col_idx∈range(page.data.width) < len(document.rtf_body.border_first[0])": [True],
        "page.is_first_page": [True, False], "page.is_last_page": [True, False],
        "document.rtf_page.page_footnote": PL, "document.rtf_page.page_source": PL,
    }
    dt = DT(pm, atoms=fixed, effect_calls={wname},
            classes={"document": "RTFDocument", "page": "PageContext", "self": "PageFeatureProcessor",
                     "document.rtf_body": "RTFBody", "document.rtf_page": "RTFPage", "document.rtf_footnote": "RTFFootnote",
                     "document.rtf_source": "RTFSource", "page.table_attrs": "TableAttributes"},
            max_atoms=40)
    args = {"self": Sym("self", "PageFeatureProcessor"), "document": Sym("document", "RTFDocument"), "page": Sym("page", "PageContext")}
    try:
        rows = dt.table(fi, args, limit=60000)
    except Unsupported as e:
        ctx.gap("R07.1", f"border decision logic uses a construct outside the decision-table subset (or its table was cut off): {e}")      # a cut-off is a gap, the other rules still run
        return
    ctx.extra["table_rows"] = len(rows)
    ctx.extra["atoms"] = sorted(dt.discovered)
    ctx.extra["exhaustive"] = True
    # project each leaf to the semantic atoms
    def b(v, key, default=None):
        return v.get(key, default)
    classes: dict[tuple, list] = {}
    unbound = 0
    n_cfg = 0
    seen_cfg = set()
    unknown_atoms = set()
    KNOWN_PREFIX = ("page.is_", "document.rtf_page.", "bool(document.rtf_column_header)", "bool(document.rtf_footnote", "bool(document.rtf_source",
                    "bool(page.table_attrs)", "bool(page.table_attrs.", "bool(document.rtf_body.", "isinstance(document.rtf_body", "page.data.height == 0",
                    "len(document.rtf_column_header) > 0", "bool(document.rtf_footnote.as_table)", "bool(document.rtf_source.as_table)",
                    "len(document.rtf_body.border_top[0])", "∀col_idx", "bool(document.rtf_body.border_top")
    for v, run in rows:
        for k in v:
            if not k.startswith(KNOWN_PREFIX) and "border_top" not in k and "border_bottom" not in k and "border_first_row" not in k:
                unknown_atoms.add(k)
        first0, last0 = v.get("page.is_first_page"), v.get("page.is_last_page")
        Hl0 = (bool(v["bool(document.rtf_column_header)"]) and v.get("len(document.rtf_column_header) > 0", True)) if "bool(document.rtf_column_header)" in v else None
        F = bool(v.get("bool(document.rtf_footnote)", False)) and bool(v.get("bool(document.rtf_footnote.text)", False))
        S = bool(v.get("bool(document.rtf_source)", False)) and bool(v.get("bool(document.rtf_source.text)", False))
        Fa = v.get("bool(document.rtf_footnote.as_table)")
        Sa = v.get("bool(document.rtf_source.as_table)")
        pf = v.get("document.rtf_page.page_footnote")
        ps = v.get("document.rtf_page.page_source")
        # effects -> normalised (target, side, style source)
        got_top, got_bottom = set(), set()
        for e in run.effects:
            if e[0] == "call" and e[1] == wname:
                bound = {**dict(zip(roles["params"], e[3])), **e[4]}
                if not all(roles[k] in bound for k in ("row", "side", "style")):
                    unbound += 1
                    continue
                row, side = row_of(bound[roles["row"]]), str(bound[roles["side"]])
                for st_ in _style_terms(bound[roles["style"]]):
                    (got_top if side == "top" else got_bottom).add((row, side, style_src(st_)))
            elif e[0] == "store" and e[1] == "page.component_borders":
                tgt = e[2].strip("[]")
                got_bottom.add((tgt, "bottom", style_src(e[3])))
        # the user's own border_top overriding body.first on selected columns is the documented per-cell behaviour
        got_top = {(r, s, "body.first" if st == "body.top(user)" else st) for r, s, st in got_top}
        # enumerate the unconsulted semantic atoms (the code did not look at them, so the result is the same for all values)
        st0 = [v.get(f"bool(document.{t}.{a})") for t, a in (("rtf_page", "border_first"), ("rtf_page", "border_last"), ("rtf_body", "border_first"), ("rtf_body", "border_last"))]
        for styles in itertools.product(*[[x] if x is not None else [True, False] for x in st0]):
          for first, last, Hl, Fa_, Sa_, pf_, ps_ in itertools.product([first0] if first0 is not None else [True, False], [last0] if last0 is not None else [True, False],
                                                                      [Hl0] if Hl0 is not None else [True, False],
                                                                      [Fa] if Fa is not None else [True, False], [Sa] if Sa is not None else [True, False],
                                                                      [pf] if pf is not None else PL, [ps] if ps is not None else PL):
            if not F and Fa is None and Fa_ is False:
                continue     # as_table irrelevant without a footnote: count the configuration once
            if not S and Sa is None and Sa_ is False:
                continue
            cfg = (first, last, Hl, F, Fa_ if F else None, pf_ if F else None, S, Sa_ if S else None, ps_ if S else None) + (() if all(styles) else (styles,))
            if cfg in seen_cfg:
                continue
            seen_cfg.add(cfg)
            n_cfg += 1
            etop, ebot = expected(first, last, Hl, F, bool(Fa_), pf_, S, bool(Sa_), ps_, styles)
            if got_top != etop:
                key = ("top", tuple(sorted(etop)), tuple(sorted(got_top)), f"first={first}")
                classes.setdefault(key, []).append(cfg)
            if got_bottom != ebot:
                key = ("bottom", tuple(sorted(ebot)), tuple(sorted(got_bottom)), f"last={last}")
                classes.setdefault(key, []).append(cfg)
    ctx.extra["configurations"] = n_cfg
    n_writes = sum(1 for _v, run in rows for e in run.effects if e[0] == "call" and e[1] == wname)
    if unbound or not n_writes:
        ctx.gap("R07.1", f"the calls of the border writer {wname} could not be read ({unbound} call(s) whose arguments do not bind its row / side / style parameters, {n_writes} call(s) in the table)")
        return
    ctx.instance("R07.1", fi.where(), f"decision table of {FN}: {len(rows)} leaves over {len(dt.discovered)} atoms, projected to {n_cfg} configurations of "
                 "(first,last,header,footnote{text,as_table,placement},source{…}); compared with the three-tier oracle")
    for k in sorted(unknown_atoms):
        ctx.instance("R07.1", fi.where(), f"border logic consults an atom outside the documented hierarchy: {k}")
    for key, cfgs in sorted(classes.items(), key=lambda kv: str(kv[0])):
        edge, exp, got, flag = key
        ex = cfgs[0]
        exdesc = dict(zip(("first", "last", "header", "footnote", "fn_as_table", "page_footnote", "source", "src_as_table", "page_source", "non-empty(page.first, page.last, body.first, body.last)"), ex))
        ctx.instance("R07.1", fi.where(), f"{edge} edge disagreement class ({len(cfgs)} configurations): expected {list(exp)} got {list(got)}; e.g. {exdesc}")
        ctx.violation("R07.1", FN, f"{edge}|expected={list(exp)}|got={list(got)}|{flag}", fi.where(),
                      f"{edge} edge: on {len(cfgs)} configuration(s) the hierarchy requires {list(exp)} but the code applies {list(got) or 'nothing'}; "
                      f"e.g. {exdesc}", configurations=len(cfgs), example=exdesc)
    if n_cfg < 300:
        ctx.gap("R07.1", f"only {n_cfg} configurations enumerated (>= 300 expected): atoms were not recognised")




# ---------------------------------------------------------------------------------------------------- helpers

def _flow(pm, **kw):
    from .c06 import FlowDT
    return FlowDT(pm, **kw)


def _table(ctx: Ctx, rule: str, dt, fi, args, what: str, limit: int = 6000):
    try:
        return dt.table(fi, args, limit=limit)
    except (Unsupported, NeedAtom) as e:
        ctx.gap(rule, f"{what} is outside the interpretable subset ({str(e)[:120]})")
        return None


def _params(fi) -> list[str]:
    return [a.arg for a in fi.node.args.args if a.arg not in ("self", "cls")]


def _required(fi) -> list[str]:
    """the parameters a caller must pass (opt-in parameters with defaults are evaluated with their defaults)"""
    from .c06 import required_params
    return required_params(fi, drop_self=True)


def _copies(r) -> dict[str, tuple[str, str]]:
    """copy path -> (original path, deep|shallow) of one run"""
    return {e[1]: (e[2], e[3]) for e in r.effects if e[0] == "copy"}


# ---------------------------------------------------------------------------------------------------- R07.2

def _flat_syms(x):
    if isinstance(x, Sym):
        yield x
    elif isinstance(x, (list, tuple)):
        for y in x:
            yield from _flat_syms(y)


_HEADER_SHAPES = ("is_nested_header_list", "is_flat_header_list", "is_single_header")


def r07_2(ctx: Ctx) -> None:
    """_render_column_headers over a symbolic document: the three type guards of rtf_column_header (nested list, flat list,
    single header) are conditions like any other and all their valuations are enumerated; the loops over the (symbolic) header
    collections are ONE generic iteration each.  Judged: which header copy receives rtf_page.border_first as the top edge of
    its row 0, under which conditions (first page ∧ first header ∧ border configured)"""
    from .c06 import loop_of
    pm = ctx.pm
    fi = pm.func("PageRenderer._render_column_headers")
    ps = _required(fi)
    if len(ps) != 2:
        ctx.gap("R07.2", "_render_column_headers no longer takes (document, page)")
        return
    doc, pg = ps
    bad: dict[str, str] = {}
    applied = 0
    rows_n = 0
    shapes_seen = set()
    for regime in (True, False):
        dt = _flow(pm, atoms={f"{pg}.is_first_page": [True, False]}, classes={doc: "RTFDocument", pg: "PageContext", "self": "PageRenderer"},
                   relevant=("is_first_page", "rtf_page.border_first", " is first") + _HEADER_SHAPES, regime=regime, max_atoms=30,
                   effect_calls={"encode_column_header"}, opaque={"update_row", "to_list"} | set(_HEADER_SHAPES))
        rows = _table(ctx, "R07.2", dt, fi, {"self": Sym("self", "PageRenderer"), doc: Sym(doc, "RTFDocument"), pg: Sym(pg, "PageContext")}, "_render_column_headers")
        if rows is None:
            return
        for v, r in rows:
            if r.raised is not None:
                continue
            rows_n += 1
            first = v.get(f"{pg}.is_first_page")
            shape = next((g for g in _HEADER_SHAPES if any(k.startswith(f"bool({g}(") and x for k, x in v.items())), "?")
            cp = _copies(r)
            for k, e in enumerate(r.effects, 1):
                if e[0] != "store" or e[2] != "border_top":
                    continue
                base, val = e[1], str(e[3])
                if "rtf_page.border_first" not in val:
                    continue
                applied += 1
                shapes_seen.add(shape)
                if base not in cp:
                    bad.setdefault("value written into " + base, f"rtf_page.border_first is written into `{base}.border_top`, the document's own header, instead of the per-page copy")
                    continue
                orig = cp[base][0]
                if first is not True:
                    bad.setdefault("guard " + ("ignores is_first_page" if first is None else "applies on later pages"),
                                   f"rtf_page.border_first is applied to the header with is_first_page={first}; required: first page ∧ first header row ∧ border configured")
                lp = loop_of(r.effects, k)
                if lp is not None:
                    pos = v.get(f"{lp} is first")
                    if pos is not True:
                        bad.setdefault("guard applies to header " + ("at any position" if pos is None else "after the first"),
                                       f"rtf_page.border_first is applied to header `{orig}` ({shape}) " + ("without consulting its position" if pos is None else "that is not the first one")
                                       + "; only the first header row carries the page's top edge")
                    own = {x.path for x in _flat_syms(r.loop_elems.get(lp))}
                    if orig not in own:
                        ctx.gap("R07.2", f"inside iteration {lp} the border is written into a copy of `{orig}`, which was not re-identified as the iteration's own header ({sorted(own)[:2]})")
                elif orig != f"{doc}.rtf_column_header":
                    ctx.gap("R07.2", f"the header `{orig}` that receives the page's top edge outside a loop over the headers was not re-identified")
                if v.get(f"bool({doc}.rtf_page.border_first)") is False:
                    bad.setdefault("guard applies an empty border", "the header top edge is overwritten although rtf_page.border_first is empty")
                m = re.fullmatch(r"BroadcastValue\(…\)#(\d+)\.update_row\((.+?), (.+)\)", val)
                if not m:
                    ctx.gap("R07.2", f"the value stored as the header's top edge (`{val[:80]}`) could not be re-identified")
                    continue
                cons = r.effects[int(m.group(1)) - 1]
                src = str(cons[2].get("value")) if cons[0] == "construct" else "?"
                if m.group(2) != "0":
                    bad.setdefault("value row " + m.group(2), f"rtf_page.border_first is written to row {m.group(2)} of the header, expected row 0")
                if src != f"{base}.border_top":
                    bad.setdefault("value built from " + src[:40], f"the header's top edges are rebuilt from `{src}`, expected the copy's own border_top")
                if re.search(r"border_(last|top|bottom)\b", m.group(3)) or "rtf_body" in m.group(3):
                    bad.setdefault("value " + m.group(3)[:60], f"row 0 of the header receives `{m.group(3)[:80]}`, expected rtf_page.border_first for every column")
    ctx.instance("R07.2", fi.where(), f"header top edge: symbolic rtf_column_header, every valuation of the type guards (nested / flat / single) x first/later page x first/later header x border "
                 f"configured ({rows_n} paths, generic iteration of the header loops); rtf_page.border_first -> row 0 of the copy of the first header on the first page only: applied on {applied} path(s) "
                 f"(shapes {sorted(shapes_seen)}), {len(bad)} disagreement(s)")
    if not applied:
        ctx.gap("R07.2", "no path of _render_column_headers writes rtf_page.border_first into a header's border_top (site not re-identified)")
    for k, msg in sorted(bad.items()):
        ctx.violation("R07.2", fi.short, k, fi.where(), msg)


# ---------------------------------------------------------------------------------------------------- R07.3

def r07_3(ctx: Ctx) -> None:
    pm = ctx.pm
    from .c06 import render_table
    t = render_table(ctx)
    r = t["fi"]
    for comp, callee in (("footnote", "encode_footnote"), ("source", "encode_source")):
        # ---- producer side: render hands page.component_borders[comp] to the encoder
        if t["error"]:
            ctx.gap("R07.3", t["error"])
        else:
            seen = bad = 0
            ex = None
            for v, run, _seq, _g in t["rows"]:
                for e in run.effects:
                    if e[0] == "call" and e[1] == callee:
                        seen += 1
                        val = e[4].get("border_style", e[3][3] if len(e[3]) > 3 else None)
                        if not re.fullmatch(r"\w+\.component_borders(\.get\(%s(, None)?\)|\[%s\])" % (comp, comp), str(val)):
                            bad += 1
                            ex = ex or str(val)
            ctx.instance("R07.3", r.where(), f"render: {callee}(border_style=page.component_borders.get('{comp}')) on {seen} evaluated call(s), {bad} other value(s)")
            if not seen:
                ctx.gap("R07.3", f"the call of {callee} could not be re-identified in PageRenderer.render")
            elif bad:
                ctx.violation("R07.3", r.short, f"{callee} border override", r.where(), f"render passes `{ex}` to {callee} as border_style, not page.component_borders['{comp}']")
        # ---- consumer side: the override becomes the bottom border of a copy of the component
        f = pm.func("RTFEncodingService." + callee)
        ps = _params(f)
        if len(ps) < 4 or "border_style" not in ps:
            ctx.gap("R07.3", f"{callee} no longer takes a border_style override")
            continue
        cfg = ps[0]
        dt = _flow(pm, classes={"self": "RTFEncodingService"}, effect_calls={"_encode", "_encode_text"}, relevant=("border_style",), regime=True, max_atoms=20)
        rows = _table(ctx, "R07.3", dt, f, {"self": Sym("self", "RTFEncodingService"), **{p: Sym(p) for p in ps}}, callee)
        if rows is None:
            continue
        bad2: dict[str, str] = {}
        n_over = 0
        for v, run in rows:
            if run.raised is not None:
                continue
            over = v.get("bool(border_style)")
            if over is None:
                over = not v.get("border_style is None", True) if "border_style is None" in v else None
            cp = _copies(run)
            stores = [(e[1], e[2], e[3]) for e in run.effects if e[0] == "store" and str(e[2]).startswith("border")]
            encs = [e for e in run.effects if e[0] == "call" and e[1] in ("_encode", "_encode_text")]
            for base, attr, val in stores:
                if base not in cp:
                    bad2.setdefault("override written into the component", f"{callee} writes {attr} of `{base}` itself: the document's component is shared by all pages")
            if over:
                n_over += 1
                hit = [(b, a, val) for b, a, val in stores if a == "border_bottom" and "border_style" in str(val)]
                if not hit:
                    bad2.setdefault("override", f"{callee} does not apply a given border_style as the bottom border of (a copy of) the component row")
                else:
                    b, a, val = hit[0]
                    if val != [["border_style"]] and val != (("border_style",),):
                        ctx.gap("R07.3", f"{callee}: the override is stored as `{val}` (expected one row, one cell)")
                    if encs and any(e[2] != b for e in encs):
                        bad2.setdefault("override not encoded", f"{callee} stores the override into `{b}` but encodes `{encs[0][2]}`")
            elif over is False and any("border_style" in str(val) for _b, _a, val in stores):
                bad2.setdefault("override", f"{callee} writes a border although no border_style was given")
        ctx.instance("R07.3", f.where(), f"{callee}: a given border_style becomes border_bottom of a copy that is then encoded ({n_over} path(s) with override, {len(rows)} total): {len(bad2)} disagreement(s)")
        if not n_over:
            ctx.gap("R07.3", f"{callee}: no evaluated path consults the border_style override")
        for k, msg in sorted(bad2.items()):
            ctx.violation("R07.3", f.short, k, f.where(), msg)


# ---------------------------------------------------------------------------------------------------- R07.4

def _row_kinds(e: ast.AST, fn: ast.AST, elem_of: dict, depth: int = 0) -> set[str]:
    """ownership of the ROW objects of a list-of-rows expression: 'fresh' (every row a new list object), 'stored' (rows of
    the object's own stored block), 'repeated' (one row object can occur at several positions), 'unknown'"""
    asg = assignments(fn)
    if depth > 10:
        return {"unknown"}
    if isinstance(e, ast.Constant) and e.value is None:
        return set()
    if isinstance(e, ast.Attribute) and isinstance(e.value, ast.Name) and e.value.id == "self":
        return {"stored"}
    if isinstance(e, ast.Name):
        if e.id in elem_of:
            return {"unknown"}
        vals = asg.get(e.id, [])
        if not vals:
            return {"unknown"}
        out = set()
        for v in vals:
            if isinstance(v, ast.Constant) and isinstance(v.value, str) and v.value.startswith("<"):
                out.add("unknown")
            else:
                out |= _row_kinds(v, fn, elem_of, depth + 1)
        # an accumulator filled in place
        for c in walk_no_nested(fn):
            if isinstance(c, ast.Call) and isinstance(c.func, ast.Attribute) and isinstance(c.func.value, ast.Name) and c.func.value.id == e.id and c.args:
                if c.func.attr == "append":
                    out |= _one_row(c.args[0], fn, _loop_vars(c, fn), depth + 1)
                elif c.func.attr in ("extend", "insert"):
                    out |= _row_kinds(c.args[-1], fn, elem_of, depth + 1) if c.func.attr == "extend" else _one_row(c.args[-1], fn, _loop_vars(c, fn), depth + 1)
        return out
    if isinstance(e, (ast.ListComp, ast.GeneratorExp)):
        ev = dict(elem_of)
        for g in e.generators:
            if isinstance(g.target, ast.Name):
                ev[g.target.id] = g.iter
            elif isinstance(g.target, (ast.Tuple, ast.List)):
                it = g.iter
                if isinstance(it, ast.Call) and dotted(it.func) == "enumerate" and it.args and len(g.target.elts) == 2 and isinstance(g.target.elts[1], ast.Name):
                    ev[g.target.elts[1].id] = it.args[0]
        return _one_row(e.elt, fn, ev, depth + 1)
    if isinstance(e, ast.BinOp) and isinstance(e.op, ast.Mult):
        side = e.left if not isinstance(e.left, ast.Constant) else e.right
        inner = _row_kinds(side, fn, elem_of, depth + 1)
        return (inner - {"fresh"}) | {"repeated"}                       # L * k puts every row object k times into the result
    if isinstance(e, ast.BinOp) and isinstance(e.op, ast.Add):
        return _row_kinds(e.left, fn, elem_of, depth + 1) | _row_kinds(e.right, fn, elem_of, depth + 1)
    if isinstance(e, ast.Subscript) and isinstance(e.slice, ast.Slice):
        return _row_kinds(e.value, fn, elem_of, depth + 1)              # a slice is a new outer list of the SAME row objects
    if isinstance(e, ast.IfExp):
        return _row_kinds(e.body, fn, elem_of, depth + 1) | _row_kinds(e.orelse, fn, elem_of, depth + 1)
    if isinstance(e, ast.Call):
        d = dotted(e.func).split(".")[-1]
        if d in ("list", "tuple", "copy", "sorted", "reversed") and (e.args or isinstance(e.func, ast.Attribute)):
            return _row_kinds(e.args[0] if e.args else e.func.value, fn, elem_of, depth + 1)
        if d == "deepcopy" and e.args:
            inner = _row_kinds(e.args[0], fn, elem_of, depth + 1)
            return {"repeated"} if "repeated" in inner else ({"unknown"} if "unknown" in inner else {"fresh"})      # deepcopy keeps internal sharing
        return {"unknown"}
    if isinstance(e, ast.List):
        out = set()
        for x in e.elts:
            out |= _one_row(x, fn, elem_of, depth + 1)
        names = [x.id for x in e.elts if isinstance(x, ast.Name)]
        if len(names) != len(set(names)):
            out.add("repeated")
        return out
    return {"unknown"}


def _loop_vars(node: ast.AST, fn: ast.AST) -> dict:
    """loop variable -> iterated expression for the for-loops around a node"""
    out = {}
    for a in _anc(node, fn):
        if isinstance(a, ast.For):
            if isinstance(a.target, ast.Name):
                out.setdefault(a.target.id, a.iter)
            elif isinstance(a.target, (ast.Tuple, ast.List)) and isinstance(a.iter, ast.Call) and dotted(a.iter.func) == "enumerate" and a.iter.args and len(a.target.elts) == 2 \
                    and isinstance(a.target.elts[1], ast.Name):
                out.setdefault(a.target.elts[1].id, a.iter.args[0])
    return out


def _one_row(e: ast.AST, fn: ast.AST, elem_of: dict, depth: int = 0) -> set[str]:
    """ownership of ONE row expression evaluated once per element of a loop / comprehension"""
    if depth > 10:
        return {"unknown"}
    if isinstance(e, ast.Name) and e.id in elem_of:
        return _row_kinds(elem_of[e.id], fn, {k: v for k, v in elem_of.items() if k != e.id}, depth + 1)     # the element itself: a row object of the iterated list
    if isinstance(e, ast.Name):
        vals = assignments(fn).get(e.id, [])
        if len(vals) == 1 and not (isinstance(vals[0], ast.Constant) and isinstance(vals[0].value, str) and vals[0].value.startswith("<")):
            return _one_row(vals[0], fn, elem_of, depth + 1)
        return {"unknown"}
    if isinstance(e, ast.BinOp) and isinstance(e.op, (ast.Mult, ast.Add)):
        return {"fresh"}                                                 # list * k, list + list: a new list object per evaluation
    if isinstance(e, ast.Subscript) and isinstance(e.slice, ast.Slice):
        return {"fresh"}                                                 # a slice is a new list object
    if isinstance(e, (ast.List, ast.ListComp)):
        return {"fresh"}
    if isinstance(e, ast.Call):
        d = dotted(e.func).split(".")[-1]
        if d in ("list", "copy", "deepcopy", "sorted"):
            return {"fresh"}
    if isinstance(e, ast.Subscript):                                     # rows[k]: one row object of another list
        return (_row_kinds(e.value, fn, elem_of, depth + 1) - {"fresh"}) | {"repeated"}
    return {"unknown"}


def _expansion_rows(ctx: Ctx) -> None:
    """ownership analysis of BroadcastValue.to_list: a later single-cell border write goes into one ROW of what it returns, so
    the rows of an expansion must be pairwise distinct list objects (not one row object repeated by `rows * k`)"""
    pm = ctx.pm
    fi = pm.func("BroadcastValue.to_list")
    fn = fi.node
    rets = [x for x in walk_no_nested(fn) if isinstance(x, ast.Return) and x.value is not None]
    n = 0
    for rt in rets:
        e = rt.value
        if isinstance(e, ast.Constant) and e.value is None:
            continue
        n += 1
        if isinstance(e, ast.Attribute) and isinstance(e.value, ast.Name) and e.value.id == "self":
            ctx.instance("R07.4", fi.where(rt), f"to_list returns the stored block `{unparse(e)}` itself (no expansion on this path)")
            continue
        kinds = _row_kinds(e, fn, {})
        ctx.instance("R07.4", fi.where(rt), f"to_list returns `{unparse(e)[:70]}`: row objects are {sorted(kinds) or ['none']}")
        if "repeated" in kinds:
            ctx.violation("R07.4", fi.short, "aliased rows " + unparse(e)[:80], fi.where(rt),
                          f"BroadcastValue.to_list returns `{unparse(e)[:80]}` whose rows are one list object repeated (`rows * k` without a per-row copy / slice): writing one cell's border into "
                          "the expansion changes the same cell of other rows")
        elif "unknown" in kinds:
            ctx.gap("R07.4", f"BroadcastValue.to_list: whether the rows of `{unparse(e)[:60]}` are distinct list objects could not be decided")
    if not n:
        ctx.gap("R07.4", "BroadcastValue.to_list: no returned expansion was re-identified")


def r07_4(ctx: Ctx) -> None:
    pm = ctx.pm
    # ---- (a) the attributes the page borders are written into are a deep copy of the shared ones
    fi = pm.func(FN)
    rets = [x for x in walk_no_nested(fi.node) if isinstance(x, ast.Return) and x.value is not None]
    kinds = set()
    desc = []
    asg = assignments(fi.node)
    _w = border_writer_roles(pm)
    writer_name = _w[0].short.split(".")[-1] if _w else "_apply_border_to_cell"

    def origins(e, seen=()):
        """expressions a returned value starts from: follow names through their assignments, and the cell writer through its first argument"""
        if isinstance(e, ast.Call) and dotted(e.func).split(".")[-1] == writer_name and e.args:
            return origins(e.args[0], seen)
        if isinstance(e, ast.Name) and e.id in asg:
            if e.id in seen or len(seen) > 12:
                return []                # the running value handed on: same object
            out = []
            for v in asg[e.id]:
                out.extend(origins(v, seen + (e.id,)))
            return out
        return [e]
    for rt in rets:
        for a2 in origins(rt.value):
            desc.append(unparse(a2)[:50])
            if isinstance(a2, ast.Call) and dotted(a2.func).split(".")[-1] == "deepcopy":
                kinds.add("deep")
            elif isinstance(a2, ast.Call) and isinstance(a2.func, ast.Attribute) and a2.func.attr in ("model_copy", "copy"):
                deep = next((k.value for k in a2.keywords if k.arg == "deep"), None)
                kinds.add("deep" if isinstance(deep, ast.Constant) and deep.value is True else "shallow")
            elif isinstance(a2, ast.Call) and dotted(a2.func).split(".")[-1] == "copy":
                kinds.add("shallow")
            elif isinstance(a2, (ast.Attribute, ast.BoolOp)) and any(x.endswith(("table_attrs", "rtf_body")) for x in leaves(a2)):
                kinds.add("none")
            else:
                kinds.add("?")
    ctx.instance("R07.4", fi.where(), f"per-page attributes returned by the border logic originate from {sorted(set(desc))[:4]}: {sorted(kinds)}")
    if "shallow" in kinds or "none" in kinds:
        ctx.violation("R07.4", fi.short, "no deepcopy", fi.where(), "page borders are written into attributes shared with other pages (no per-page deep copy: "
                      + ("a shallow copy shares the nested border lists" if "shallow" in kinds else "the page's / document's own attributes are used") + ")")
    elif kinds != {"deep"}:
        ctx.gap("R07.4", f"where the per-page attributes of {FN} come from could not be re-identified ({sorted(set(desc))[:3]})")
    # ---- (b) one edge = expand the attribute to the page shape, update exactly (row, col), store back
    got_w = border_writer_roles(pm)
    if got_w is None:
        ctx.gap("R07.4", "the helper that writes one border edge (…update_cell(row, column, style) on the expanded border_<side>) could not be re-identified by role")
    else:
        from .c06 import loop_of
        ap, roles = got_w
        ps = roles["params"]
        A, R, C, SD, ST, SH = (roles[k] for k in ("attrs", "row", "col", "side", "style", "shape"))
        bad: dict[str, str] = {}
        n = 0
        for side in ("top", "bottom"):
            dt = _flow(pm, classes={"self": "PageFeatureProcessor"}, effect_calls={"update_cell"}, relevant=("<none>",), regime=True, max_atoms=10)
            args = {"self": Sym("self", "PageFeatureProcessor"), **{p: Sym(p) for p in ps}}
            args[SD] = side
            rows = _table(ctx, "R07.4", dt, ap, args, ap.short)
            if rows is None:
                break
            for v, r in rows:
                n += 1
                cons = [(i + 1, e) for i, e in enumerate(r.effects) if e[0] == "construct" and e[1] == "BroadcastValue"]
                upd = [(i + 1, e) for i, e in enumerate(r.effects) if e[0] == "call" and e[1] == "update_cell"]
                st = [e for e in r.effects if e[0] == "store" and e[1] == A]
                if len(cons) != 1 or len(upd) != 1:
                    ctx.gap("R07.4", f"{ap.short}: the expansion / single-cell update could not be re-identified ({len(cons)} BroadcastValue, {len(upd)} update_cell)")
                    continue
                k, c = cons[0]
                ku, u = upd[0]
                if str(c[2].get("value")) != f"{A}.border_{side}" or (SH is not None and str(c[2].get("dimension")) != SH):
                    bad.setdefault("cell update source", f"side {side}: the matrix is built from ({c[2].get('value')}, {c[2].get('dimension')}), expected ({A}.border_{side}, {SH})")
                if C is not None:
                    want = (R, C, ST)
                else:
                    lp = loop_of(r.effects, ku)                    # every column of the row: generic iteration over the per-column styles
                    want = (R, lp, f"{ST}[{lp}]") if lp is not None else None
                    if lp is None:
                        ctx.gap("R07.4", f"{ap.short}: the per-column update is not inside a loop over the styles of the row")
                        continue
                if tuple(str(x) for x in u[3]) != want or not u[2].startswith("BroadcastValue(…)#%d" % k):
                    bad.setdefault("cell update", f"side {side}: update_cell{tuple(u[3])} on `{u[2]}`, expected exactly {want} on the expanded matrix")
                if not any(e[2] == f"border_{side}" and str(e[3]).startswith("BroadcastValue(…)#%d" % k) for e in st):
                    bad.setdefault("cell update not stored", f"side {side}: the updated matrix is not stored back into {A}.border_{side} (stores: {[(e[2], e[3]) for e in st]})")
                if isinstance(r.ret, Sym) and r.ret.path != A:
                    bad.setdefault("cell update result", f"side {side}: returns `{r.ret.path}`, expected the updated attributes")
        ctx.instance("R07.4", ap.where(), f"{ap.short} (roles {{{', '.join(f'{k}: {roles[k]}' for k in ('attrs', 'row', 'col', 'side', 'style', 'shape'))}}}) evaluated for top/bottom ({n} paths): expand border_<side> to the page "
                     f"shape, update {'one cell' if C is not None else 'the cells of one row (generic iteration over the columns)'}, store back: {len(bad)} disagreement(s)")
        for k, msg in sorted(bad.items()):
            ctx.violation("R07.4", ap.short, "cell update", ap.where(), "a single edge is no longer written by expanding the attribute to the page shape and updating exactly (row, col): " + msg)
    # ---- (c) update_cell over symbolic (row, column, value): the matrix becomes the expansion self.to_list() and exactly the element
    #      [row][column] of that expansion is written; the rows of the expansion are pairwise distinct objects (ownership analysis of to_list)
    uc = pm.func("BroadcastValue.update_cell")
    ps = _required(uc)
    if len(ps) != 3:
        ctx.gap("R07.4", "BroadcastValue.update_cell no longer takes (row, column, value)")
    else:
        bad = {}
        n = 0
        dt = _flow(pm, classes={"self": "BroadcastValue"}, effect_calls={"to_list"}, max_atoms=8, root_cls="BroadcastValue")
        rows = _table(ctx, "R07.4", dt, uc, {"self": Sym("self", "BroadcastValue"), **{p_: Sym(p_) for p_ in ps}}, "BroadcastValue.update_cell")
        for v, r in rows or []:
            if r.raised is not None:
                continue
            st = [e for e in r.effects if e[0] == "store"]
            if not st:
                continue                                   # nothing to update (value is None)
            n += 1
            exp = [e for e in st if e[1] == "self" and e[2] == "value"]
            cells = [e for e in st if str(e[2]).startswith("[")]
            if len(exp) != 1 or not re.fullmatch(r"self\.to_list\(…\)#\d+", str(exp[0][3])):
                ctx.gap("R07.4", f"BroadcastValue.update_cell: the matrix is not replaced by its expansion self.to_list() (stores {[(e[1], e[2], e[3]) for e in st][:3]})")
                continue
            m_ = str(exp[0][3])
            want = (f"{m_}[{ps[0]}]", f"[{ps[1]}]", ps[2])
            got = [(e[1], e[2], str(e[3])) for e in cells]
            if got != [want]:
                bad.setdefault("update_cell", f"element stores {got} on the expansion `{m_}`, expected exactly one: {want[0]}{want[1]} = {want[2]}")
        ctx.instance("R07.4", uc.where(), f"update_cell over symbolic (row, column, value), {n} updating path(s): value := self.to_list(), then exactly value[row][column] = cell value: {len(bad)} disagreement(s)")
        if rows is not None and not n:
            ctx.gap("R07.4", "BroadcastValue.update_cell: no evaluated path writes a cell")
        for k, msg in sorted(bad.items()):
            ctx.violation("R07.4", uc.short, k, uc.where(), "update_cell no longer writes exactly value[row][col] of the expanded matrix: " + msg)
    _expansion_rows(ctx)
    # ---- (d) interior cells: no other store to border_* on the encode path outside the processor / renderer header copy / footnote override
    allowed = {FN, "PageFeatureProcessor._apply_border_to_cell", "PageRenderer._render_column_headers", "RTFEncodingService.encode_footnote",
               "RTFEncodingService.encode_source", "RTFBody._set_border_defaults", "UnifiedRTFEncoder._encode_multi_section",
               "RTFEncodingService.prepare_dataframe_for_body_encoding"}
    if _w:
        allowed.add(_w[0].short)
    for f2 in pm.iter_funcs():
        for a in walk_no_nested(f2.node):
            if isinstance(a, ast.Assign):
                for tg in a.targets:
                    if isinstance(tg, ast.Attribute) and tg.attr in ("border_top", "border_bottom", "border_left", "border_right"):
                        ctx.instance("R07.4", f2.where(a), f"{f2.short}: store to {tg.attr}", nontrivial=False)
                        if f2.short not in allowed:
                            ctx.violation("R07.4", f2.short, "store " + unparse(tg), f2.where(a), f"{f2.short} rewrites {tg.attr}; interior cells must carry exactly the user's borders")
    # ---- (e) data cells read border_<side> of their own attributes at their own (row, col)
    enc = pm.func("TableAttributes._encode")
    ps = _params(enc)
    dt = _flow(pm, classes={"self": "TableAttributes"}, relevant=("<none>",), regime=True, max_atoms=30, opaque={"iloc", "_as_rtf", "calculate_lines", "row"})
    args = {"self": Sym("self", "TableAttributes"), **{p: Sym(p) for p in ps}}
    rows = _table(ctx, "R07.4", dt, enc, args, "TableAttributes._encode")
    if rows is not None:
        bad = {}
        cells = 0
        for v, r in rows:
            eff = r.effects
            idx = [e[1] for e in eff if e[0] == "loop-begin"]

            def chain(ref):
                m = re.fullmatch(r"Border\(…\)#(\d+)", str(ref))
                if not m:
                    return None
                b = eff[int(m.group(1)) - 1]
                m2 = re.fullmatch(r"BroadcastValue\(…\)#(\d+)\.iloc\((.+), (.+)\)", str(b[2].get("style")))
                if not m2:
                    return None
                bv = eff[int(m2.group(1)) - 1]
                return str(bv[2].get("value")), m2.group(2), m2.group(3)
            for e in eff:
                if e[0] != "construct" or e[1] != "Cell":
                    continue
                cells += 1
                for side in ("left", "top", "bottom", "right"):
                    ref = e[2].get(f"border_{side}")
                    if ref is None and side == "right":
                        continue
                    got = chain(ref)
                    if got is None:
                        ctx.gap("R07.4", f"TableAttributes._encode: the source of a data cell's border_{side} (`{str(ref)[:60]}`) could not be re-identified")
                        continue
                    src, ri, ci = got
                    if src != f"self.border_{side}":
                        bad.setdefault(f"border_{side} source", f"data cells take border_{side} from `{src}`, expected the attribute border_{side}")
                    elif len(idx) >= 2 and (idx[-2] not in ri or idx[-1] not in ci or idx[-1] in ri or idx[-2] in ci):
                        bad.setdefault(f"border_{side} source", f"data cells take border_{side} at ({ri}, {ci}), expected their own (row, column)")
        ctx.instance("R07.4", enc.where(), f"data cell borders read from border_left/top/bottom/right of the attributes at their own (i, j): {cells} cell construction(s), {len(bad)} disagreement(s)")
        if not cells:
            ctx.gap("R07.4", "TableAttributes._encode: no data cell construction was reached")
        for k, msg in sorted(bad.items()):
            ctx.violation("R07.4", enc.short, k, enc.where(), msg)


# ---------------------------------------------------------------------------------------------------- R07.5

def r07_5(ctx: Ctx) -> None:
    """multi-section documents over a symbolic document: the loop over the (symbolic) sections is ONE generic iteration with the
    atoms `is first` / `is last`; the page configuration a section is encoded with is a copy of rtf_page whose border_first is
    cleared iff the section is not the first and whose border_last is cleared iff it is not the last"""
    from .c06 import loop_of
    pm = ctx.pm
    fi = pm.func("UnifiedRTFEncoder._encode_multi_section")
    ps = _required(fi)
    if len(ps) != 1:
        ctx.gap("R07.5", "_encode_multi_section no longer takes (document)")
        return
    doc = ps[0]
    bad: dict[str, str] = {}
    n_calls = n_rows = 0
    for regime in (True, False):
        dt = _flow(pm, classes={doc: "RTFDocument", "self": "UnifiedRTFEncoder"}, effect_calls={"_encode_body_section"}, relevant=(" is first", " is last"), regime=regime, max_atoms=40,
                   opaque={"to_list", "update_row"})
        rows = _table(ctx, "R07.5", dt, fi, {"self": Sym("self", "UnifiedRTFEncoder"), doc: Sym(doc, "RTFDocument")}, "_encode_multi_section")
        if rows is None:
            return
        for v, r in rows:
            if r.raised is not None:
                continue
            n_rows += 1
            cp = _copies(r)
            for k, e in enumerate(r.effects, 1):
                if e[0] != "call" or e[1] != "_encode_body_section":
                    continue
                lp = loop_of(r.effects, k)
                if lp is None:
                    ctx.gap("R07.5", "a section is encoded outside a loop over the sections")
                    continue
                n_calls += 1
                first, last = v.get(f"{lp} is first"), v.get(f"{lp} is last")
                d = str(e[4].get("document", e[3][0] if e[3] else "?"))
                page = r.stores.get(f"{d}.rtf_page")
                if d not in cp or page is None:
                    ctx.gap("R07.5", f"the document a section is encoded with (`{d}`) is not a copy of the document with its own rtf_page")
                    continue
                pp = page.path if isinstance(page, Sym) else str(page)
                if pp not in cp or cp[pp][0] != f"{doc}.rtf_page":
                    if pp == f"{doc}.rtf_page":
                        cleared = [a for a in ("border_first", "border_last") if f"{pp}.{a}" in r.stores]
                        if cleared:
                            bad.setdefault("section borders cleared on the shared page", f"{cleared} are cleared on document.rtf_page itself, not on a per-section copy")
                            continue
                    ctx.gap("R07.5", f"the page configuration `{pp}` of a section is not a copy of {doc}.rtf_page")
                    continue
                for attr, pos, name in (("border_first", first, "first"), ("border_last", last, "last")):
                    key = f"{pp}.{attr}"
                    got = key in r.stores and r.stores[key] is None
                    kept = key in r.stores and isinstance(r.stores[key], Sym) and r.stores[key].path == f"{doc}.rtf_page.{attr}"
                    if key in r.stores and r.stores[key] is not None and not kept:
                        ctx.gap("R07.5", f"{attr} of the section page is set to `{r.stores[key]}`")
                    elif pos is None:
                        bad.setdefault(f"section borders {attr} {'cleared' if got else 'kept'} for every section",
                                       f"rtf_page.{attr} is {'cleared' if got else 'kept'} without consulting whether the section is the {name} one")
                    elif got != (not pos):
                        bad.setdefault(f"section borders {attr} {'cleared' if got else 'kept'} for the {'' if pos else 'non-'}{name} section",
                                       f"rtf_page.{attr} is {'cleared' if got else 'kept'} for a section that is {'' if pos else 'not '}the {name} one; it must be cleared " +
                                       ("for every section after the first" if attr == "border_first" else "for every section before the last") + " and only there")
    ctx.instance("R07.5", fi.where(), f"multi-section: ONE generic iteration of the section loop, {n_rows} valuation(s) of (is first, is last), {n_calls} section encoding(s): per-section copy of rtf_page, "
                 f"border_first cleared iff not first, border_last cleared iff not last: {len(bad)} disagreement(s)")
    if not n_calls:
        ctx.gap("R07.5", "no section encoding was reached in the generic iteration of the section loop")
    for k, msg in sorted(bad.items()):
        ctx.violation("R07.5", fi.short, k, fi.where(), "multi-section documents must clear rtf_page.border_first for sections after the first and border_last for sections "
                      "before the last (on a copy): " + msg)


# ---------------------------------------------------------------------------------------------------- R07.6

def r07_6(ctx: Ctx) -> None:
    """every page goes through the processor, and the processed page is what gets rendered"""
    pm = ctx.pm
    from ..cfg import CFG
    fi = pm.func("UnifiedRTFEncoder._encode_body_section")
    rend = [c for c in walk_no_nested(fi.node) if isinstance(c, ast.Call) and isinstance(c.func, ast.Attribute) and c.func.attr == "render" and "renderer" in dotted(c.func)]
    proc = [c for c in walk_no_nested(fi.node) if isinstance(c, ast.Call) and isinstance(c.func, ast.Attribute) and c.func.attr == "process" and "processor" in dotted(c.func)]
    if not rend or not proc:
        ctx.gap("R07.6", f"{fi.short}: the calls of the page processor / renderer could not be re-identified ({len(proc)} process, {len(rend)} render)")
    else:
        g = CFG(fi.node)
        r_nodes = [nd for c in rend for nd in g.node_containing(c)]
        p_nodes = [nd for c in proc for nd in g.node_containing(c)]
        loops = [a for a in _anc(rend[0], fi.node) if isinstance(a, (ast.For, ast.While))]
        comp = [a for a in _anc(rend[0], fi.node) if isinstance(a, (ast.ListComp, ast.GeneratorExp))]
        ok_path = True
        skipped = False
        if loops:
            heads = [nd for nd in g.nodes if nd.kind == "loop" and nd.ast is loops[0]]
            inside_r = [nd for nd in r_nodes]
            # a path from the loop head to a render that avoids every process call: an unprocessed page is rendered
            for h in heads:
                for start in h.succ[:1]:
                    if start in p_nodes:
                        continue
                    reach = g.reachable(start, exceptional=False, blocked=p_nodes + [h])
                    if any(id(x) in reach for x in inside_r):
                        ok_path = False
                # a path through the body back to the head that avoids render: a page is dropped
                for start in h.succ[:1]:
                    reach = g.reachable(start, exceptional=False, blocked=inside_r)
                    if id(h) in reach and start not in inside_r:
                        skipped = True
        elif not comp:
            ctx.gap("R07.6", f"{fi.short}: pages are not rendered in a loop over the pages")
        # the rendered page is the processor's result for a page of the pagination
        arg = rend[0].args[1] if len(rend[0].args) > 1 else next((k.value for k in rend[0].keywords if k.arg == "page"), None)
        asg = assignments(fi.node)

        def loop_iters(name):
            out = []
            for nd in ast.walk(fi.node):
                tg_it = [(nd.target, nd.iter)] if isinstance(nd, (ast.For, ast.comprehension)) else []
                for tg, it in tg_it:
                    if isinstance(tg, ast.Name) and tg.id == name:
                        out.append(it)
                    elif isinstance(tg, (ast.Tuple, ast.List)) and any(isinstance(x, ast.Name) and x.id == name for x in tg.elts):
                        k = next(i_ for i_, x in enumerate(tg.elts) if isinstance(x, ast.Name) and x.id == name)
                        if isinstance(it, ast.Call) and dotted(it.func) == "enumerate" and it.args and k == 1:
                            out.append(it.args[0])
                        else:
                            out.append(None)
            return out

        def trace(e, seen=()):
            """kinds of value an expression can stand for: processed (result of the processor), raw (a page as paginated), unknown"""
            if e is None:
                return {"unknown"}
            if isinstance(e, ast.Call) and isinstance(e.func, ast.Attribute) and e.func.attr == "process":
                return {"processed"}
            if isinstance(e, ast.Call) and isinstance(e.func, ast.Attribute) and e.func.attr == "paginate":
                return {"raw"}
            if isinstance(e, ast.Call) and dotted(e.func).split(".")[-1] == "PageContext":
                return {"raw"}
            if isinstance(e, (ast.ListComp, ast.GeneratorExp)):
                return trace(e.elt, seen)
            if isinstance(e, (ast.List, ast.Tuple)):
                return set().union(*[trace(x, seen) for x in e.elts]) if e.elts else set()
            if isinstance(e, ast.Call) and dotted(e.func) in ("list", "tuple", "iter", "reversed", "sorted") and e.args:
                return trace(e.args[0], seen)
            if isinstance(e, ast.IfExp):
                return trace(e.body, seen) | trace(e.orelse, seen)
            if isinstance(e, ast.Name):
                if e.id in seen or len(seen) > 10:
                    return set()
                vals = asg.get(e.id, [])
                if not vals:
                    return {"unknown"}
                out = set()
                for v in vals:
                    if isinstance(v, ast.Constant) and isinstance(v.value, str) and v.value.startswith("<"):
                        if v.value == "<loop>":
                            for it in loop_iters(e.id):
                                out |= trace(it, seen + (e.id,))
                        else:
                            out.add("unknown")
                    else:
                        out |= trace(v, seen + (e.id,))
                return out
            return {"unknown"}
        kinds = trace(arg) if arg is not None else {"unknown"}
        same_loop = bool(loops) and any(loops[0] in list(_anc(c, fi.node)) for c in proc)
        ctx.instance("R07.6", fi.where(rend[0]), f"page loop: render receives `{unparse(arg)[:50] if arg is not None else '?'}`, which stands for {sorted(kinds)} pages; "
                     f"every path to render passes process: {ok_path if same_loop else 'n/a (processed beforehand)'}; pages dropped: {skipped}")
        if "raw" in kinds:
            ctx.violation("R07.6", fi.short, "render argument", fi.where(rend[0]), f"the rendered page `{unparse(arg)[:60]}` can be a page as paginated, not the processor's result for that page")
        elif "unknown" in kinds or not kinds:
            ctx.gap("R07.6", f"{fi.short}: what render receives (`{unparse(arg)[:60] if arg is not None else '?'}`) could not be traced to the processor")
        if same_loop and not ok_path:
            ctx.violation("R07.6", fi.short, "processor not applied to every page", fi.where(rend[0]),
                          "PageFeatureProcessor.process is not applied unconditionally to every page (cached/skipped pages keep no border overrides for footnote/source rows)")
        elif skipped:
            ctx.violation("R07.6", fi.short, "processor not applied to every page", fi.where(rend[0]), "some path through the page loop renders nothing for a page (continue/break before render)")
        for c in proc:
            pa = c.args[1] if len(c.args) > 1 else next((k.value for k in c.keywords if k.arg == "page"), None)
            if pa is not None and trace(pa) and "raw" not in trace(pa) and "unknown" not in trace(pa):
                ctx.violation("R07.6", fi.short, "processor argument", fi.where(c), f"the processor is applied to `{unparse(pa)[:60]}`, not to a page of the pagination")
    # process = store this page's border attributes, return the page
    p = pm.func("PageFeatureProcessor.process")
    ps = _required(p)
    if len(ps) != 2:
        ctx.gap("R07.6", "PageFeatureProcessor.process no longer takes (document, page)")
    else:
        dt = _flow(pm, classes={"self": "PageFeatureProcessor", ps[1]: "PageContext"}, effect_calls={"_apply_pagination_borders"}, relevant=("<none>",), regime=True, max_atoms=10)
        rows = _table(ctx, "R07.6", dt, p, {"self": Sym("self", "PageFeatureProcessor"), ps[0]: Sym(ps[0]), ps[1]: Sym(ps[1], "PageContext")}, "PageFeatureProcessor.process")
        if rows is not None:
            ok_p = bool(rows)
            why = ""
            for v, r in rows:
                calls = [(i + 1, e) for i, e in enumerate(r.effects) if e[0] == "call" and e[1] == "_apply_pagination_borders"]
                st = [e for e in r.effects if e[0] == "store" and e[1] == ps[1] and e[2] == "final_body_attrs"]
                if len(calls) != 1 or tuple(str(x) for x in calls[0][1][3]) != (ps[0], ps[1]):
                    ok_p, why = False, f"_apply_pagination_borders called {[c[1][3] for c in calls]}"
                elif not st or not str(st[-1][3]).endswith(f"(…)#{calls[0][0]}"):
                    ok_p, why = False, f"final_body_attrs <- {[e[3] for e in st]}"
                elif not (isinstance(r.ret, Sym) and r.ret.path == ps[1]):
                    ok_p, why = False, f"returns {r.ret}"
            ctx.instance("R07.6", p.where(), f"process stores _apply_pagination_borders(document, page) into page.final_body_attrs and returns the page: {ok_p} {why}")
            if not ok_p:
                ctx.violation("R07.6", p.short, "process body", p.where(), f"process no longer computes this page's border attributes from (document, page): {why}")
    rb = pm.func("PageRenderer._render_body")
    uses = [x for x in walk_no_nested(rb.node) if isinstance(x, ast.Attribute) and x.attr == "final_body_attrs" and isinstance(x.ctx, ast.Load)]
    if not uses:
        ctx.gap("R07.6", "_render_body: the use of page.final_body_attrs could not be re-identified")
    else:
        par = getattr(uses[0], "_parent", None)
        first = isinstance(par, ast.BoolOp) and isinstance(par.op, ast.Or) and par.values[0] is uses[0] or isinstance(par, (ast.Assign, ast.IfExp, ast.Compare, ast.If, ast.Call, ast.keyword))
        ctx.instance("R07.6", rb.where(uses[0]), f"_render_body takes the page's finalized attributes first: `{unparse(par)[:70] if par is not None else '?'}`")
        if isinstance(par, ast.BoolOp) and not first:
            ctx.violation("R07.6", rb.short, "page_attrs = " + unparse(par)[:60], rb.where(uses[0]), "the body is not rendered with the page's own finalized border attributes first")


def _anc(n, stop):
    p = getattr(n, "_parent", None)
    while p is not None and p is not stop:
        yield p
        p = getattr(p, "_parent", None)


def check(ctx: Ctx) -> None:
    from .c06 import ABSTRACTION
    ctx.explain(ABSTRACTION)
    ctx.explain(
        "R07.1 the border logic (_apply_pagination_borders with _apply_body_border_first, _apply_footnote_source_borders and "
        "_should_show_element inlined) is evaluated as a decision table over symbolic configuration atoms with lazy atom "
        "discovery; every leaf's effects (which row, which side, which style source; component border overrides) are compared "
        "with the documented three-tier hierarchy on every configuration of first/last x header x footnote{text,as_table,"
        "placement} x source{…} (exhaustive). R07.2 the header renderer over a symbolic rtf_column_header: all valuations of the three type guards "
        "(nested / flat / single), generic iteration of the header loops: which header copy gets rtf_page.border_first on row 0, under which conditions. "
        "R07.3 render hands page.component_borders[c] to the encoder; "
        "the encoder evaluated with/without override: bottom border of a copy, which is what gets encoded. R07.4 per-page deep copy (value tracing), "
        "single-cell update evaluated symbolically (_apply_border_to_cell, BroadcastValue.update_cell), ownership analysis of the rows BroadcastValue.to_list "
        "returns (no row object repeated), no other border stores, data cells read their own (i,j). R07.5 multi-section first/last clearing: ONE generic "
        "iteration of the section loop over (is first, is last). R07.6 path property of the page loop.")
    ctx.assume("a configured column-header list renders at least one header row on the first page (the Hl/Hr distinction of DESIGN.md appendix C is not decided)")
    ctx.assume("an empty tier style ('' = no border) of rtf_page.border_first/last or rtf_body.border_first/last means that nothing is applied to the edge it governs (the emptiness of the "
               "four styles is enumerated; a style of another tier must not take its place)")
    ctx.assume("conditions are independent atoms; in R07.2 / R07.5 conditions that mention none of the relevant names are pinned to one value per regime (all true / all false)")
    ctx.undecided("border widths and colours (never emitted, see C09); page_by without column headers (excluded by the property for the top-edge clause)")
    r07_1(ctx)
    r07_2(ctx)
    r07_3(ctx)
    # R07.3 complement: an emitter result memoised under a key that omits the page's border override
    from ..effects import memo_key_gaps
    for fi in ctx.pm.iter_funcs():
        for node, cont, kl, vl, missing in memo_key_gaps(ctx.pm, fi):
            bord = [m for m in missing if "border" in m]
            ctx.instance("R07.3", fi.where(node), f"{fi.short}: memo in {cont}: key {kl}; value depends on {vl}")
            if bord:
                ctx.violation("R07.3", fi.short, f"memo {cont} key lacks {','.join(bord)[:80]}", fi.where(node),
                              f"{fi.short}: an encoded block is cached in {cont} under a key that does not include {bord}: the block encoded for one page (with that page's "
                              "border override) is reused on pages whose override differs - the closing border of the table is wrong there")
    r07_4(ctx)
    from .tablecore import broadcast_expansion
    broadcast_expansion(ctx, "R07.4")
    r07_5(ctx)
    r07_6(ctx)
