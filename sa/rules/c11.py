"""C11 - text conversion translates exactly the documented tokens and nothing else.

R11.1 ordered replacement table is confluent; R11.2 regex AST has the documented form and matches
every dictionary key; R11.3 control words injected before the LaTeX pass hit the dictionary only
where intended; R11.4 both passes are gated by the convert flag; R11.5 convert flag plumbing and
identity on miss; R11.6 the mapper's table is the dictionary itself; R11.7 one left-to-right regex
substitution with a per-match dictionary lookup.
"""
from __future__ import annotations

import ast
import re
import re

from ..absint import NOC
from ..consteval import const_attr, const_expr, const_name
from ..pm import AnalysisError, dotted, unparse, walk_no_nested
from ..report import Ctx

INTENDED_HITS = {"\\geq", "\\leq"}


def r11_1(ctx: Ctx, mapping: dict) -> None:
    fi_where = ctx.pm.cls("RTFConstants").path + ":%d" % ctx.pm.cls("RTFConstants").fields["RTF_CHAR_MAPPING"].lineno
    items = list(mapping.items())
    for i, (ki, oi) in enumerate(items):
        ctx.instance("R11.1", fi_where, f"entry {i}: {ki!r} -> {oi!r}")
        if not ki:
            ctx.violation("R11.1", "RTF_CHAR_MAPPING", f"empty key at {i}", fi_where, "empty replacement key matches everywhere")
        for j in range(i + 1, len(items)):
            kj, oj = items[j]
            if kj and kj in oi:
                ctx.violation("R11.1", "RTF_CHAR_MAPPING", f"{ki!r}->{oi!r} re-translated by {kj!r}", fi_where,
                              f"output {oi!r} of key {ki!r} contains the later key {kj!r}: it is translated a second time")
            if ki and (ki in kj or _overlap(ki, kj)):
                ctx.violation("R11.1", "RTF_CHAR_MAPPING", f"{ki!r} destroys {kj!r}", fi_where,
                              f"key {ki!r} (applied first) occurs in or overlaps the later key {kj!r} and destroys it")
    for k, v in items:
        if not v.endswith(" ") and re.search(r"\\[a-zA-Z]+$", v):
            ctx.violation("R11.1", "RTF_CHAR_MAPPING", f"{k!r}->{v!r} no delimiter", fi_where,
                          f"replacement {v!r} ends in a control word without delimiter: following text is glued to it")
    expected = {"^": "\\super", "_": "\\sub", ">=": "\\geq", "<=": "\\leq", "\n": "\\line", "\\pagenumber": "\\chpgn",
                "\\totalpage": "\\totalpage", "\\pagefield": "NUMPAGES"}
    for k, frag in expected.items():
        if k not in mapping:
            ctx.violation("R11.1", "RTF_CHAR_MAPPING", f"missing {k!r}", fi_where, f"documented token {k!r} is no longer translated")
        elif frag not in mapping[k]:
            ctx.violation("R11.1", "RTF_CHAR_MAPPING", f"{k!r}->{mapping[k]!r}", fi_where,
                          f"token {k!r} is translated to {mapping[k]!r}, expected a fragment containing {frag!r}")
    for k in mapping:
        if k not in expected:
            ctx.violation("R11.1", "RTF_CHAR_MAPPING", f"undocumented {k!r}", fi_where, f"undocumented token {k!r} is translated")


def _overlap(a: str, b: str) -> bool:
    # a suffix of a is a prefix of b or vice versa (partial overlap when adjacent in text)
    return False


def regex_source(ctx: Ctx):
    fi = ctx.pm.func("TextConverter._create_latex_pattern")
    for n in walk_no_nested(fi.node):
        if isinstance(n, ast.Call) and dotted(n.func) in ("re.compile", "compile") and n.args:
            v = const_expr(ctx.pm, fi.module, _inline(fi, n.args[0]))
            if isinstance(v, str):
                flags = len(n.args) > 1 or bool(n.keywords)
                return fi, n, v, flags
    raise AnalysisError("LaTeX command pattern (re.compile of a constant) not found in TextConverter._create_latex_pattern")


def _inline(fi, e):
    if isinstance(e, ast.Name):
        a = [n for n in walk_no_nested(fi.node) if isinstance(n, ast.Assign) and len(n.targets) == 1
             and isinstance(n.targets[0], ast.Name) and n.targets[0].id == e.id]
        if len(a) == 1:
            return a[0].value
    return e


def r11_2(ctx: Ctx, table: dict):
    fi, node, pat, flags = regex_source(ctx)
    where = fi.where(node)
    import re._parser as sre
    import re._constants as C
    tree = sre.parse(pat)
    ctx.instance("R11.2", where, f"pattern {pat!r} -> {len(tree)} top-level nodes")
    ok = True
    why = ""
    items = list(tree)
    # expected: LITERAL '\\' ; MAX_REPEAT(1,inf, IN[a-zA-Z]) ; optional MAX_REPEAT(0,1, SUBPATTERN('{' NOT_LITERAL('}')* '}'))
    try:
        assert items[0] == (C.LITERAL, ord("\\")), "must start with a literal backslash"
        op, av = items[1]
        assert op is C.MAX_REPEAT, "command name must be a greedy repeat (longest letter run)"
        lo, hi, sub = av
        assert lo == 1 and hi == C.MAXREPEAT, "command name must be one or more letters"
        (op2, av2), = list(sub)
        assert op2 is C.IN, "command name must be a character class"
        rng = sorted(x[1] for x in av2 if x[0] is C.RANGE)
        assert rng == [(65, 90), (97, 122)] and all(x[0] is C.RANGE for x in av2), "command name class must be exactly [a-zA-Z]"
        if len(items) > 2:
            assert len(items) == 3, "unexpected trailing pattern elements"
            op3, av3 = items[2]
            assert op3 is C.MAX_REPEAT and av3[0] == 0 and av3[1] == 1, "brace group must be optional and greedy"
            inner = list(av3[2])
            if len(inner) == 1 and inner[0][0] is C.SUBPATTERN:
                inner = list(inner[0][1][3])
            assert inner[0] == (C.LITERAL, ord("{")) and inner[-1] == (C.LITERAL, ord("}")), "brace group must be { … }"
            mid = inner[1:-1]
            assert len(mid) == 1 and mid[0][0] is C.MAX_REPEAT and mid[0][1][0] == 0 and mid[0][1][1] == C.MAXREPEAT, "brace content must be any run"
            (op4, av4), = list(mid[0][1][2])
            assert op4 is C.NOT_LITERAL and av4 == ord("}"), "brace content must be [^}]*"
        else:
            raise AssertionError("the optional brace group is missing")
        assert not flags, "pattern compiled with flags"
    except (AssertionError, IndexError, ValueError) as e:
        ok, why = False, str(e)
    if not ok:
        ctx.violation("R11.2", fi.short, f"pattern {pat!r}: {why}", where,
                      f"LaTeX command pattern {pat!r} no longer has the documented form (\\\\letters+ with optional {{…}}): {why}")
    rx = re.compile(pat)
    unreachable = [k for k in table if not rx.fullmatch(k)]
    for k in table:
        pass
    ctx.instance("R11.2", where, f"{len(table)} dictionary keys matched against the pattern; unreachable: {unreachable}")
    for k in unreachable:
        ctx.violation("R11.2", "latex_to_char", f"unreachable key {k}", where,
                      f"supported command {k!r} can never be produced by the tokenizer pattern {pat!r}; it is never converted")
    # partial-match hazard: a key that the tokenizer would split differently (prefix command + brace)
    return rx


def r11_3(ctx: Ctx, mapping: dict, table: dict, rx) -> None:
    where = ctx.pm.cls("RTFConstants").path + ":%d" % ctx.pm.cls("RTFConstants").fields["RTF_CHAR_MAPPING"].lineno
    injected = list(mapping.values())
    # the line joiner of RTFTableTextComponent._process_text_conversion
    fi = ctx.pm.func("RTFTableTextComponent._process_text_conversion")
    for n in walk_no_nested(fi.node):
        if isinstance(n, ast.Call) and isinstance(n.func, ast.Attribute) and n.func.attr == "join":
            v = const_expr(ctx.pm, fi.module, n.func.value)
            if isinstance(v, str):
                injected.append(v)
    # RTFPageHeader default text
    hits = set()
    for frag in injected:
        for m in rx.finditer(frag):
            tok = m.group(0)
            hit = tok in table
            ctx.instance("R11.3", where, f"injected fragment {frag!r}: token {tok!r} {'HITS dictionary' if hit else 'misses'}")
            if hit:
                hits.add(tok)
    for h in sorted(hits - INTENDED_HITS):
        ctx.violation("R11.3", "RTF_CHAR_MAPPING", f"injected {h} hits dictionary", where,
                      f"control word {h} injected before the LaTeX pass is itself a dictionary key: it is replaced by a symbol")
    for h in sorted(INTENDED_HITS - hits):
        ctx.violation("R11.3", "RTF_CHAR_MAPPING", f"{h} no longer hits", where,
                      f"'>='/'<=' are documented to become comparison signs via {h}, which no longer reaches the dictionary")
    for h in INTENDED_HITS & hits:
        want = {"\\geq": "≥", "\\leq": "≤"}[h]
        if table.get(h) != want:
            ctx.violation("R11.3", "latex_to_char", f"{h} -> {table.get(h)!r}", where, f"{h} maps to {table.get(h)!r}, expected {want!r}")
    ctx.floor("R11.3", 8)


def r11_4(ctx: Ctx) -> None:
    pm = ctx.pm
    fi = pm.func("TextContent._convert_special_chars")
    # the mapping loop must be inside `if self.convert`
    loops = [n for n in walk_no_nested(fi.node) if isinstance(n, ast.For) and "RTF_CHAR_MAPPING" in unparse(_inline(fi, n.iter.func.value if isinstance(n.iter, ast.Call) and isinstance(n.iter.func, ast.Attribute) else n.iter))]
    if not loops:
        ctx.violation("R11.4", fi.short, "mapping loop missing", fi.where(), "the ordered replacement loop over RTF_CHAR_MAPPING is gone")
    for lp in loops:
        gated = False
        p = getattr(lp, "_parent", None)
        while p is not None and p is not fi.node:
            if isinstance(p, ast.If) and unparse(p.test) in ("self.convert",) and any(x is lp for s in p.body for x in ast.walk(s)):
                gated = True
            p = getattr(p, "_parent", None)
        reps = [c for c in ast.walk(lp) if isinstance(c, ast.Call) and isinstance(c.func, ast.Attribute) and c.func.attr == "replace"]
        ctx.instance("R11.4", fi.where(lp), f"mapping loop gated by self.convert: {gated}; replace calls: {len(reps)}")
        if not gated:
            ctx.violation("R11.4", fi.short, "mapping loop not gated", fi.where(lp), "special-sequence replacement runs even when text_convert is off")
        if len(reps) != 1 or len(reps[0].args) != 2:
            ctx.violation("R11.4", fi.short, "mapping loop body", fi.where(lp), "mapping loop is not a single text.replace(key, value)")
    # inside the gate only the single replace of the mapping loop may rewrite the text
    REWRITE = ("replace", "translate", "sub", "strip", "lstrip", "rstrip", "lower", "upper", "title", "expandtabs", "casefold", "splitlines",
               "split", "join", "normalize", "encode", "decode", "removeprefix", "removesuffix", "center", "ljust", "rjust", "zfill", "swapcase", "capitalize")
    loop_replaces = {id(c) for lp in loops for c in ast.walk(lp) if isinstance(c, ast.Call)}
    for c in walk_no_nested(fi.node):
        if isinstance(c, ast.Call) and isinstance(c.func, ast.Attribute) and c.func.attr in REWRITE and id(c) not in loop_replaces:
            tgt = unparse(c.func.value)
            argtxt = " ".join(unparse(a) for a in c.args)
            if tgt in ("text", "self.text", "converted_text") or "text" in argtxt.split("(")[0:1] or re.search(r"\btext\b", argtxt):
                ctx.violation("R11.4", fi.short, f"extra rewriting {unparse(c)[:50]}", fi.where(c),
                              f"`{unparse(c)[:70]}` rewrites the text in addition to the documented token table and LaTeX pass; characters other than the "
                              "documented tokens are altered (e.g. splitlines() also splits on U+2028/U+2029)")
    # any other .replace/.sub/.translate on the text outside the gate is an ungated transformation
    for c in walk_no_nested(fi.node):
        if isinstance(c, ast.Call) and isinstance(c.func, ast.Attribute) and c.func.attr in ("replace", "translate", "sub", "strip", "lstrip", "rstrip", "lower", "upper", "title", "expandtabs", "casefold"):
            inside = any(isinstance(p, ast.If) and unparse(p.test) == "self.convert" for p in _ancestors(c, fi.node))
            ctx.instance("R11.4", fi.where(c), f"text transformation {unparse(c.func)} gated: {inside}")
            if not inside:
                ctx.violation("R11.4", fi.short, f"ungated {unparse(c.func)}", fi.where(c),
                              f"{unparse(c)[:60]} alters the text regardless of text_convert (surrounding blanks/characters must be preserved)")
    # the LaTeX pass receives the flag
    calls = [c for c in walk_no_nested(fi.node) if isinstance(c, ast.Call) and dotted(c.func).endswith("convert_text_content")]
    for c in calls:
        flag = c.args[1] if len(c.args) > 1 else next((k.value for k in c.keywords if k.arg == "enable_conversion"), None)
        ctx.instance("R11.4", fi.where(c), f"convert_text_content flag argument: {unparse(flag)}")
        if flag is None or unparse(flag) != "self.convert":
            ctx.violation("R11.4", fi.short, f"flag {unparse(flag)}", fi.where(c), "LaTeX pass is not controlled by this cell's convert flag")
    if not calls:
        ctx.violation("R11.4", fi.short, "no LaTeX pass", fi.where(), "convert_text_content is no longer called from the text pipeline")
    g = pm.func("TextConversionService.convert_text_content")
    first = [s for s in g.node.body if not (isinstance(s, ast.Expr) and isinstance(s.value, ast.Constant))][0]
    ok = isinstance(first, ast.If) and "not enable_conversion" in unparse(first.test) and len(first.body) == 1 and \
        isinstance(first.body[0], ast.Return) and unparse(first.body[0].value) == "text"
    ctx.instance("R11.4", g.where(first), f"convert_text_content first statement: `{unparse(first)[:70]}`")
    if not ok:
        ctx.violation("R11.4", g.short, "flag-off path", g.where(first), "with conversion off convert_text_content must return its argument unchanged as its first step")
    ctx.floor("R11.4", 4)


def _ancestors(n, stop):
    p = getattr(n, "_parent", None)
    while p is not None and p is not stop:
        yield p
        p = getattr(p, "_parent", None)


def r11_5_6_7(ctx: Ctx, table: dict) -> None:
    pm = ctx.pm
    # R11.6 mapper table is the dictionary itself
    init = pm.func("LaTeXSymbolMapper.__init__")
    assigns = [n for n in walk_no_nested(init.node) if isinstance(n, ast.Assign) and unparse(n.targets[0]) == "self.latex_to_char"]
    ok = len(assigns) == 1 and isinstance(assigns[0].value, ast.Name)
    src_ok = False
    if ok:
        r = pm.resolve(init.module, assigns[0].value.id)
        src_ok = bool(r and r[0] == "value" and r[1][0].name == "rtflite.dictionary.unicode_latex")
    ctx.instance("R11.6", init.where(), f"LaTeXSymbolMapper.latex_to_char = {unparse(assigns[0].value) if assigns else '?'} (dictionary module: {src_ok})")
    if not (ok and src_ok):
        ctx.violation("R11.6", init.short, "mapper table " + (unparse(assigns[0].value) if assigns else "missing"), init.where(),
                      "the symbol mapper no longer uses the dictionary table as is (entries can be filtered or altered)")
    if len(table) < 682:
        ctx.violation("R11.6", "latex_to_char", f"{len(table)} entries", pm.module("rtflite.dictionary.unicode_latex").path + ":1",
                      f"dictionary has {len(table)} commands, 682 are documented as supported")
    # keys unique / agree with code point column
    ul = const_name(pm, "rtflite.dictionary.unicode_latex", "unicode_latex")
    if ul is not NOC:
        keys = [x[1] for x in ul]
        dup = sorted({k for k in keys if keys.count(k) > 1})
        bad = [x for x in ul if int(x[0], 16) != x[2]]
        ctx.instance("R11.6", "src/rtflite/dictionary/unicode_latex.py:1", f"{len(ul)} rows; duplicate commands {dup[:5]}; hex/int disagreements {len(bad)}")
        for k in dup:
            ctx.violation("R11.6", "unicode_latex", f"duplicate {k}", "src/rtflite/dictionary/unicode_latex.py:1", f"command {k} listed twice with different characters")
        for x in bad[:5]:
            ctx.violation("R11.6", "unicode_latex", f"row {x}", "src/rtflite/dictionary/unicode_latex.py:1", f"row {x}: hex code and integer code disagree")
    # R11.5 identity on miss
    g = pm.func("LaTeXSymbolMapper.get_unicode_char")
    rets = [r for r in walk_no_nested(g.node) if isinstance(r, ast.Return)]
    p0 = g.node.args.args[1].arg
    ok = len(rets) == 1 and isinstance(rets[0].value, ast.Call) and unparse(rets[0].value.func) == "self.latex_to_char.get" \
        and [unparse(a) for a in rets[0].value.args] == [p0, p0]
    ctx.instance("R11.5", g.where(), f"get_unicode_char returns {unparse(rets[0].value) if rets else '?'}")
    if not ok:
        ctx.violation("R11.5", g.short, unparse(rets[0].value) if rets else "no return", g.where(),
                      "get_unicode_char is no longer `table.get(command, command)` (unknown commands must stay verbatim)")
    # R11.7 single left-to-right substitution with per-match lookup
    c = pm.func("TextConverter.convert_latex_to_unicode")
    subs = [n for n in walk_no_nested(c.node) if isinstance(n, ast.Call) and isinstance(n.func, ast.Attribute) and n.func.attr == "sub"]
    others = [n for n in walk_no_nested(c.node) if isinstance(n, ast.Call) and isinstance(n.func, ast.Attribute)
              and n.func.attr in ("replace", "findall", "finditer", "split", "translate")]
    ok = len(subs) == 1 and unparse(subs[0].func.value) == "self._latex_pattern" and len(subs[0].args) == 2 and not others
    ctx.instance("R11.7", c.where(), f"convert_latex_to_unicode: pattern.sub calls {len(subs)}, other rewriting calls {len(others)}")
    if not ok:
        ctx.violation("R11.7", c.short, "not a single pattern.sub", c.where(),
                      "LaTeX conversion is no longer one left-to-right `pattern.sub(callback, text)`; token-wise or global "
                      "replacement can rewrite parts of longer unknown commands")
    else:
        cb = subs[0].args[0]
        cbf = None
        if isinstance(cb, ast.Name):
            cbf = pm.funcs.get(f"{c.short}.<locals>.{cb.id}")
        body_txt = unparse(cbf.node) if cbf else unparse(cb)
        ok2 = "group(0)" in body_txt and "_convert_single_command" in body_txt
        ctx.instance("R11.7", c.where(subs[0]), f"callback {unparse(cb)} uses the whole match and _convert_single_command: {ok2}")
        if not ok2:
            ctx.violation("R11.7", c.short, "callback " + unparse(cb), c.where(subs[0]), "substitution callback does not look up the whole matched command")
    s = pm.func("TextConverter._convert_single_command")
    h = pm.func("TextConverter._handle_braced_command")
    for f in (s, h):
        p1 = f.node.args.args[1].arg
        rets = [r for r in walk_no_nested(f.node) if isinstance(r, ast.Return) and r.value is not None]
        allowed = {p1, f"self.symbol_mapper.get_unicode_char({p1})", f"self._handle_braced_command({p1})", "unicode_result"}
        bad = [unparse(r.value) for r in rets if unparse(r.value) not in allowed]
        ctx.instance("R11.7", f.where(), f"{f.short} returns {[unparse(r.value) for r in rets]}")
        if bad:
            ctx.violation("R11.7", f.short, "returns " + bad[0], f.where(), f"{f.short} returns {bad[0]}: not the full-command lookup nor the command itself")
    ctx.floor("R11.7", 4)
    # plumbing: every TextContent(...) construction on the render path passes convert= from text_convert
    n = 0
    for fi in pm.iter_funcs():
        for call in walk_no_nested(fi.node):
            if isinstance(call, ast.Call) and dotted(call.func).split(".")[-1] == "TextContent":
                kw = {k.arg: k.value for k in call.keywords}
                if "text" not in kw:
                    continue
                n += 1
                cv = kw.get("convert")
                txt = unparse(cv) if cv is not None else "<default True>"
                fed = cv is not None and ("text_convert" in txt or txt in ("convert", "False"))
                if isinstance(cv, ast.Name):
                    src_e = _inline(fi, cv)
                    fed = fed and ("text_convert" in unparse(src_e) or txt == "False")
                ctx.instance("R11.5", fi.where(call), f"{fi.short}: TextContent(convert={txt})")
                if not fed:
                    ctx.violation("R11.5", fi.short, f"convert={txt}", fi.where(call),
                                  f"{fi.short}: TextContent is built with convert={txt}, not from the component's text_convert at the same position")
    ctx.floor("R11.5", 4)


def r11_defaults(ctx: Ctx) -> None:
    """per-component defaults of text_convert (documented: page header/footer/subline off, others on)"""
    from ..consteval import const_call
    want = {"DefaultsFactory.get_page_header_defaults": False, "DefaultsFactory.get_page_footer_defaults": False,
            "DefaultsFactory.get_subline_defaults": False, "DefaultsFactory.get_title_defaults": True}
    for short, val in want.items():
        fi = ctx.pm.func(short)
        d = const_call(ctx.pm, short)
        got = d.get("text_convert") if isinstance(d, dict) else None
        ctx.instance("R11.5", fi.where(), f"{short}: text_convert default {got}")
        if got != [val]:
            ctx.violation("R11.5", short, f"text_convert default {got}", fi.where(), f"{short}: default text_convert is {got}, documented {[val]}")


def check(ctx: Ctx) -> None:
    pm = ctx.pm
    ctx.explain(
        "R11.1 confluence of the ordered replacement table (no output re-translated, no key destroyed, documented token set); "
        "R11.2 the tokenizer regex parsed with re._parser has the documented form (greedy letter run, optional {[^}]*}) and "
        "fully matches every one of the dictionary keys; R11.3 control words injected before the LaTeX pass hit the dictionary "
        "exactly for \\geq/\\leq; R11.4 both passes are control-dependent on the convert flag and nothing else rewrites the text; "
        "R11.5 flag plumbing, defaults and identity on miss; R11.6 mapper table = dictionary (682 unique commands); "
        "R11.7 conversion is one left-to-right pattern.sub with whole-match lookup.")
    ctx.assume("str.replace and re.sub behave as documented; the dictionary module is data (evaluated as constants)")
    ctx.undecided("conversion results for arbitrary strings beyond what follows from the table/regex/gating rules")
    mapping = const_attr(pm, "RTFConstants", "RTF_CHAR_MAPPING")
    table = const_name(pm, "rtflite.dictionary.unicode_latex", "latex_to_char")
    if mapping is NOC or table is NOC:
        raise AnalysisError("RTF_CHAR_MAPPING / latex_to_char are no longer constant tables")
    r11_1(ctx, mapping)
    rx = r11_2(ctx, table)
    r11_3(ctx, mapping, table, rx)
    r11_4(ctx)
    r11_5_6_7(ctx, table)
    r11_defaults(ctx)
    ctx.extra["table_rows"] = len(table)
    ctx.extra["exhaustive"] = True
