"""C11 - text conversion translates exactly the documented tokens and nothing else.

R11.1 ordered replacement table is confluent; R11.2 regex AST has the documented form and matches
every dictionary key; R11.3 control words injected before the LaTeX pass hit the dictionary only
where intended; R11.4 both passes are gated by the convert flag; R11.5 convert flag plumbing and
identity on miss; R11.6 the mapper's table is the dictionary itself; R11.7 one left-to-right regex
substitution with a per-match dictionary lookup.

R11.4-R11.7 are decided on a symbolic execution of the text pipeline (class Sym) run once per value of
the conversion flag: the string is followed from TextContent.text to the per-character escaper through
helpers, guard clauses and temporaries, recording the transformations applied to it (replacement table,
regex substitution, anything else); the substitution callback is evaluated on a symbolic match, and the
table it looks up is evaluated as a constant of the source.  What cannot be followed is a gap, not a
violation.
"""
from __future__ import annotations

import ast
import re
import re

from ..absint import NOC
from ..consteval import const_attr, const_expr, const_name
from ..pm import AnalysisError, dotted, unparse, walk_no_nested
from ..report import Ctx

INTENDED_HITS = {"\\geq", "\\leq"}


def r11_1(ctx: Ctx, mapping: dict) -> None:
    fi_where = ctx.pm.cls("RTFConstants").path + ":%d" % ctx.pm.cls("RTFConstants").fields["RTF_CHAR_MAPPING"].lineno
    items = list(mapping.items())
    for i, (ki, oi) in enumerate(items):
        ctx.instance("R11.1", fi_where, f"entry {i}: {ki!r} -> {oi!r}")
        if not ki:
            ctx.violation("R11.1", "RTF_CHAR_MAPPING", f"empty key at {i}", fi_where, "empty replacement key matches everywhere")
        for j in range(i + 1, len(items)):
            kj, oj = items[j]
            if kj and kj in oi:
                ctx.violation("R11.1", "RTF_CHAR_MAPPING", f"{ki!r}->{oi!r} re-translated by {kj!r}", fi_where,
                              f"output {oi!r} of key {ki!r} contains the later key {kj!r}: it is translated a second time")
            if ki and (ki in kj or _overlap(ki, kj)):
                ctx.violation("R11.1", "RTF_CHAR_MAPPING", f"{ki!r} destroys {kj!r}", fi_where,
                              f"key {ki!r} (applied first) occurs in or overlaps the later key {kj!r} and destroys it")
    for k, v in items:
        if not v.endswith(" ") and re.search(r"\\[a-zA-Z]+$", v):
            ctx.violation("R11.1", "RTF_CHAR_MAPPING", f"{k!r}->{v!r} no delimiter", fi_where,
                          f"replacement {v!r} ends in a control word without delimiter: following text is glued to it")
    expected = {"^": "\\super", "_": "\\sub", ">=": "\\geq", "<=": "\\leq", "\n": "\\line", "\\pagenumber": "\\chpgn",
                "\\totalpage": "\\totalpage", "\\pagefield": "NUMPAGES"}
    for k, frag in expected.items():
        if k not in mapping:
            ctx.violation("R11.1", "RTF_CHAR_MAPPING", f"missing {k!r}", fi_where, f"documented token {k!r} is no longer translated")
        elif frag not in mapping[k]:
            ctx.violation("R11.1", "RTF_CHAR_MAPPING", f"{k!r}->{mapping[k]!r}", fi_where,
                          f"token {k!r} is translated to {mapping[k]!r}, expected a fragment containing {frag!r}")
    for k in mapping:
        if k not in expected:
            ctx.violation("R11.1", "RTF_CHAR_MAPPING", f"undocumented {k!r}", fi_where, f"undocumented token {k!r} is translated")


def _overlap(a: str, b: str) -> bool:
    # a suffix of a is a prefix of b or vice versa (partial overlap when adjacent in text)
    return False


def regex_source(ctx: Ctx, subs: list):
    """the tokenizer pattern, identified by role: the compiled pattern on which the LaTeX substitution is performed
    (`P.sub(callback, text)` / `re.sub(P, callback, text)`), evaluated as a constant through the abstract interpreter
    (so it may be built inline, in a factory method, or be a module-level constant)."""
    import re as _re
    from ..consteval import interp_for
    from ..docshape import _DUMMY
    from ..absint import constof
    pm = ctx.pm
    it = interp_for(pm)
    for ev in subs:
        fi, node, pexpr = ev["fi"], ev["node"], ev["pattern"]
        env = {"__module__": fi.module}
        if fi.cls:
            env["self"] = it.construct(fi.cls, [], {}, _DUMMY)
            env["__class__"] = fi.cls
        v = constof(it.ev(pexpr, env))
        if isinstance(v, str):
            return fi, node, v, False
        if isinstance(v, _re.Pattern):
            return fi, node, v.pattern, bool(v.flags & ~_re.UNICODE)
    raise AnalysisError("LaTeX command pattern: the pattern object of the regex substitution could not be evaluated to a constant"
                        if subs else "LaTeX command pattern: no regex substitution (pattern.sub(callback, text)) found on the conversion path")


def r11_2(ctx: Ctx, table: dict, subs: list):
    fi, node, pat, flags = regex_source(ctx, subs)
    where = fi.where(node)
    import re._parser as sre
    import re._constants as C
    tree = sre.parse(pat)
    ctx.instance("R11.2", where, f"pattern {pat!r} -> {len(tree)} top-level nodes")
    ok = True
    why = ""
    items = list(tree)
    # expected: LITERAL '\\' ; MAX_REPEAT(1,inf, IN[a-zA-Z]) ; optional MAX_REPEAT(0,1, SUBPATTERN('{' NOT_LITERAL('}')* '}'))
    try:
        assert items[0] == (C.LITERAL, ord("\\")), "must start with a literal backslash"
        op, av = items[1]
        assert op is C.MAX_REPEAT, "command name must be a greedy repeat (longest letter run)"
        lo, hi, sub = av
        assert lo == 1 and hi == C.MAXREPEAT, "command name must be one or more letters"
        (op2, av2), = list(sub)
        assert op2 is C.IN, "command name must be a character class"
        rng = sorted(x[1] for x in av2 if x[0] is C.RANGE)
        assert rng == [(65, 90), (97, 122)] and all(x[0] is C.RANGE for x in av2), "command name class must be exactly [a-zA-Z]"
        if len(items) > 2:
            assert len(items) == 3, "unexpected trailing pattern elements"
            op3, av3 = items[2]
            assert op3 is C.MAX_REPEAT and av3[0] == 0 and av3[1] == 1, "brace group must be optional and greedy"
            inner = list(av3[2])
            if len(inner) == 1 and inner[0][0] is C.SUBPATTERN:
                inner = list(inner[0][1][3])
            assert inner[0] == (C.LITERAL, ord("{")) and inner[-1] == (C.LITERAL, ord("}")), "brace group must be { … }"
            mid = inner[1:-1]
            assert len(mid) == 1 and mid[0][0] is C.MAX_REPEAT and mid[0][1][0] == 0 and mid[0][1][1] == C.MAXREPEAT, "brace content must be any run"
            (op4, av4), = list(mid[0][1][2])
            assert op4 is C.NOT_LITERAL and av4 == ord("}"), "brace content must be [^}]*"
        else:
            raise AssertionError("the optional brace group is missing")
        assert not flags, "pattern compiled with flags"
    except (AssertionError, IndexError, ValueError) as e:
        ok, why = False, str(e)
    if not ok:
        ctx.violation("R11.2", fi.short, f"pattern {pat!r}: {why}", where,
                      f"LaTeX command pattern {pat!r} no longer has the documented form (\\\\letters+ with optional {{…}}): {why}")
    rx = re.compile(pat)
    unreachable = [k for k in table if not rx.fullmatch(k)]
    for k in table:
        pass
    ctx.instance("R11.2", where, f"{len(table)} dictionary keys matched against the pattern; unreachable: {unreachable}")
    for k in unreachable:
        ctx.violation("R11.2", "latex_to_char", f"unreachable key {k}", where,
                      f"supported command {k!r} can never be produced by the tokenizer pattern {pat!r}; it is never converted")
    # partial-match hazard: a key that the tokenizer would split differently (prefix command + brace)
    return rx


def r11_3(ctx: Ctx, mapping: dict, table: dict, rx) -> None:
    where = ctx.pm.cls("RTFConstants").path + ":%d" % ctx.pm.cls("RTFConstants").fields["RTF_CHAR_MAPPING"].lineno
    injected = list(mapping.values())
    # the line joiner of RTFTableTextComponent._process_text_conversion
    fi = ctx.pm.func("RTFTableTextComponent._process_text_conversion")
    for n in walk_no_nested(fi.node):
        if isinstance(n, ast.Call) and isinstance(n.func, ast.Attribute) and n.func.attr == "join":
            v = const_expr(ctx.pm, fi.module, n.func.value)
            if isinstance(v, str):
                injected.append(v)
    # RTFPageHeader default text
    hits = set()
    for frag in injected:
        for m in rx.finditer(frag):
            tok = m.group(0)
            hit = tok in table
            ctx.instance("R11.3", where, f"injected fragment {frag!r}: token {tok!r} {'HITS dictionary' if hit else 'misses'}")
            if hit:
                hits.add(tok)
    for h in sorted(hits - INTENDED_HITS):
        ctx.violation("R11.3", "RTF_CHAR_MAPPING", f"injected {h} hits dictionary", where,
                      f"control word {h} injected before the LaTeX pass is itself a dictionary key: it is replaced by a symbol")
    for h in sorted(INTENDED_HITS - hits):
        ctx.violation("R11.3", "RTF_CHAR_MAPPING", f"{h} no longer hits", where,
                      f"'>='/'<=' are documented to become comparison signs via {h}, which no longer reaches the dictionary")
    for h in INTENDED_HITS & hits:
        want = {"\\geq": "≥", "\\leq": "≤"}[h]
        if table.get(h) != want:
            ctx.violation("R11.3", "latex_to_char", f"{h} -> {table.get(h)!r}", where, f"{h} maps to {table.get(h)!r}, expected {want!r}")
    ctx.floor("R11.3", 8)


# ------------------------------------------------------------------------------------------------ symbolic executor
REWRITING = {"replace", "translate", "strip", "lstrip", "rstrip", "lower", "upper", "title", "expandtabs", "casefold",
             "splitlines", "split", "rsplit", "partition", "rpartition", "join", "normalize", "encode", "decode",
             "removeprefix", "removesuffix", "center", "ljust", "rjust", "zfill", "swapcase", "capitalize", "format"}
QUERIES = {"startswith", "endswith", "isdigit", "isascii", "isalpha", "isalnum", "isspace", "isprintable", "isupper",
           "islower", "isnumeric", "isdecimal", "isidentifier", "find", "rfind", "index", "rindex", "count"}


class Sym:
    """Symbolic execution of the text pipeline for one value of the conversion flag ('world').

    The tracked string is the value ("text", root, ops): `root` names where it comes from ("doc" = the text field of
    the entry object, "cmd" = the whole match of the LaTeX tokenizer) and `ops` is the sequence of transformations
    applied to it so far.  Branches whose test is decided by the world's constants are followed on one side only;
    other branches are followed on both sides and joined (sets of values).  Repository functions that receive a
    tracked value are entered, so helper extraction, guard clauses and temporaries do not change the result.
    Recorded events: the strings that reach the per-character escaper, regex substitutions applied to the text,
    table look-ups keyed by the text."""

    def __init__(self, pm, world: dict, text_fields: set, escape_nodes: set):
        self.pm = pm
        self.world = world              # (class, attribute) -> python constant
        self.text_fields = text_fields  # (class, attribute) pairs that are the tracked document text
        self.escape_nodes = escape_nodes
        self.cvals: list = []
        self.objs: dict = {}
        self.closures: dict = {}
        self.lambdas: list = []
        self.events: list = []
        self.stack: list = []
        self.unsupported: list = []

    # ---- values
    def const(self, v):
        try:
            hash(v)
            if isinstance(v, (str, int, float, bool, type(None), bytes)):
                return ("const", type(v).__name__, v)
        except TypeError:
            pass
        self.cvals.append(v)
        return ("cref", len(self.cvals) - 1)

    def pyval(self, v):
        if v[0] == "const":
            return True, v[2]
        if v[0] == "cref":
            return True, self.cvals[v[1]]
        return False, None

    @staticmethod
    def text(root, ops=()):
        return ("text", root, tuple(ops))

    @staticmethod
    def is_text(v):
        return v[0] == "text"

    def other(self, n):
        return ("other", unparse(n)[:60] if isinstance(n, ast.AST) else str(n)[:60])

    def new_obj(self, cls):
        oid = len(self.objs)
        self.objs[oid] = {}
        return ("obj", cls, oid)

    def with_op(self, vals, op):
        """apply a transformation to every tracked string among vals"""
        out = set()
        for v in vals:
            if self.is_text(v):
                out.add(self.text(v[1], v[2] + (op,)))
            elif v[0] == "esc":
                out.add(v)
        return out

    # ---- expressions
    def ev(self, e, env, fi) -> frozenset:
        m = getattr(self, "ev_" + type(e).__name__, None)
        if m is None:
            return frozenset({self.other(e)})
        return frozenset(m(e, env, fi))

    def ev_Constant(self, e, env, fi):
        return {self.const(e.value)}

    def ev_Name(self, e, env, fi):
        if e.id in env:
            return env[e.id]
        r = self.pm.resolve(fi.module, e.id)
        if r:
            kind, payload = r
            if kind == "class":
                return {("cls", payload.name)}
            if kind == "func":
                return {("fn", payload.short)}
            if kind == "value":
                v = const_expr(self.pm, fi.module, e)
                if v is not NOC:
                    return {self.const(v)}
            if kind in ("module", "ext"):
                return {("ext", payload.name if kind == "module" else str(payload))}
        return {self.other(e)}

    def attr_of(self, b, attr, e, fi):
        if b[0] == "obj":
            cls, oid = b[1], b[2]
            if (cls, attr) in self.world:
                return {self.const(self.world[(cls, attr)])}
            if attr in self.objs[oid]:
                return self.objs[oid][attr]
            for c in self.pm.mro(cls):
                if (c, attr) in self.world:
                    return {self.const(self.world[(c, attr)])}
                if (c, attr) in self.text_fields:
                    return {self.text("doc")}
            meth = self.pm.find_method(cls, attr)
            if meth is not None:
                return {("meth", meth.short, b)}
            ann = self.pm.field_ann(cls, attr)
            if ann:
                a = ann.replace(" ", "")
                cs = [t for t in re.findall(r"[A-Za-z_][A-Za-z_0-9]*", a) if t in self.pm.classes]
                if cs:
                    return {self.new_obj(cs[0])} | ({self.const(None)} if "None" in a else set())
                if a == "bool":
                    return {("bool",)}
            try:
                v = const_attr(self.pm, cls, attr)
                if v is not NOC:
                    return {self.const(v)}
            except AnalysisError:
                pass
            return {self.other(e)}
        if b[0] == "cls":
            meth = self.pm.find_method(b[1], attr)
            if meth is not None:
                return {("meth", meth.short, b)}
            try:
                v = const_attr(self.pm, b[1], attr)
                if v is not NOC:
                    return {self.const(v)}
            except AnalysisError:
                pass
            return {self.other(e)}
        if b[0] == "ext":
            return {("ext", b[1] + "." + attr)}
        return {self.other(e)}

    def ev_Attribute(self, e, env, fi):
        out = set()
        for b in self.ev(e.value, env, fi):
            out |= set(self.attr_of(b, e.attr, e, fi))
        return out

    def ev_IfExp(self, e, env, fi):
        t = self.truth(e.test, env, fi)
        if t is True:
            return self.ev(e.body, self.narrow(dict(env), e.test, True, fi), fi)
        if t is False:
            return self.ev(e.orelse, self.narrow(dict(env), e.test, False, fi), fi)
        return self.ev(e.body, self.narrow(dict(env), e.test, True, fi), fi) | self.ev(e.orelse, self.narrow(dict(env), e.test, False, fi), fi)

    def ev_BoolOp(self, e, env, fi):
        out = set()
        for i, v in enumerate(e.values):
            t = self.truth(v, env, fi)
            last = i == len(e.values) - 1
            if isinstance(e.op, ast.And):
                if t is False:
                    return out | set(self.ev(v, env, fi))
                if t is True and not last:
                    continue
            else:
                if t is True:
                    return out | set(self.ev(v, env, fi))
                if t is False and not last:
                    continue
            out |= set(self.ev(v, env, fi))
        return out

    def ev_UnaryOp(self, e, env, fi):
        if isinstance(e.op, ast.Not):
            t = self.truth(e.operand, env, fi)
            return {self.const(not t)} if t is not None else {("bool",)}
        return {self.other(e)}

    def ev_Compare(self, e, env, fi):
        t = self.truth(e, env, fi)
        for x in [e.left] + list(e.comparators):
            self.ev(x, env, fi)
        return {self.const(t)} if t is not None else {("bool",)}

    def ev_JoinedStr(self, e, env, fi):
        vals = set()
        for v in e.values:
            if isinstance(v, ast.FormattedValue):
                vals |= set(self.ev(v.value, env, fi))
        r = self.with_op(vals, ("format", unparse(e)[:50], fi.where(e)))
        return r or {self.other(e)}

    def ev_BinOp(self, e, env, fi):
        l, r = self.ev(e.left, env, fi), self.ev(e.right, env, fi)
        ok1, ok2 = [self.pyval(v) for v in l], [self.pyval(v) for v in r]
        if len(l) == 1 and len(r) == 1 and ok1[0][0] and ok2[0][0]:
            try:
                from ..absint import _binop
                v = _binop(e.op, ok1[0][1], ok2[0][1])
                if v is not NOC:
                    return {self.const(v)}
            except Exception:
                pass
        res = self.with_op(l | r, ("concat", unparse(e)[:50], fi.where(e)))
        return res or {self.other(e)}

    def ev_Tuple(self, e, env, fi):
        vals = [self.ev(x, env, fi) for x in e.elts]
        if all(len(v) == 1 and self.pyval(next(iter(v)))[0] for v in vals):
            seq = [self.pyval(next(iter(v)))[1] for v in vals]
            return {self.const(tuple(seq) if isinstance(e, ast.Tuple) else list(seq))}
        out = set()
        for v in vals:
            out |= {x for x in v if self.is_text(x) or x[0] == "esc"}
        return out or {self.other(e)}

    ev_List = ev_Tuple
    ev_Set = ev_Tuple

    def ev_Dict(self, e, env, fi):
        v = const_expr(self.pm, fi.module, e)
        return {self.const(v)} if v is not NOC else {self.other(e)}

    def ev_Lambda(self, e, env, fi):
        self.lambdas.append((e, dict(env), fi))
        return {("lambda", len(self.lambdas) - 1)}

    def ev_Subscript(self, e, env, fi):
        base = self.ev(e.value, env, fi)
        idx = self.ev(e.slice, env, fi) if not isinstance(e.slice, ast.Slice) else frozenset()
        out = set()
        for b in base:
            if b[0] == "match":
                ok = [self.pyval(i) for i in idx]
                out.add(self.text("cmd") if len(ok) == 1 and ok[0][0] and ok[0][1] == 0 else self.other(e))
            elif self.is_text(b) or b[0] == "esc":
                out |= self.with_op({b}, ("index", unparse(e)[:50], fi.where(e)))
            elif any(self.is_text(i) for i in idx):
                # TABLE[key] keyed by the tracked string: a look-up that is the identity on a miss only if it is
                # guarded by `key in TABLE` (the other branch then decides what a miss returns)
                from ..astmatch import guard_atoms, guards
                atoms = guard_atoms(guards(e, fi.node))
                if f"{unparse(e.slice)} in {unparse(e.value)}" in atoms:
                    dflt = idx
                else:
                    p, in_try = getattr(e, "_parent", None), False
                    while p is not None and p is not fi.node:
                        in_try = in_try or isinstance(p, ast.Try)
                        p = getattr(p, "_parent", None)
                    dflt = frozenset({("raises", "maybe handled" if in_try else "KeyError")})
                self.events.append({"kind": "lookup", "fi": fi, "node": e, "table": frozenset({b}), "key": idx, "default": dflt})
                out.add(("lookup", len(self.events) - 1))
            else:
                okb, pb = self.pyval(b)
                oki = [self.pyval(i) for i in idx]
                if okb and len(oki) == 1 and oki[0][0]:
                    try:
                        out.add(self.const(pb[oki[0][1]]))
                        continue
                    except Exception:
                        pass
                out.add(self.other(e))
        return out

    def _comp(self, e, env, fi):
        g = e.generators[0]
        itv = self.ev(g.iter, env, fi)
        if id(e) in self.escape_nodes:
            self.events.append({"kind": "chars", "fi": fi, "node": e, "vals": itv})
            return {("esc",)}
        env2 = dict(env)
        self.bind(g.target, self.elems(itv, g.iter), env2, fi)
        for g2 in e.generators[1:]:
            self.bind(g2.target, self.elems(self.ev(g2.iter, env2, fi), g2.iter), env2, fi)
        elts = [e.elt] if not isinstance(e, ast.DictComp) else [e.key, e.value]
        out = set()
        for x in elts:
            out |= {v for v in self.ev(x, env2, fi) if self.is_text(v) or v[0] == "esc"}
        return out or {self.other(e)}

    ev_ListComp = ev_GeneratorExp = ev_SetComp = ev_DictComp = _comp

    def elems(self, itv, node):
        """values of the elements of an iterable value"""
        out = set()
        for v in itv:
            ok, pv = self.pyval(v)
            if ok and isinstance(pv, (list, tuple, set, frozenset, dict)) and len(pv) <= 64:
                for x in pv:
                    out.add(self.const(x))
            elif self.is_text(v):
                out.add(self.text(v[1], v[2] + (("element", unparse(node)[:50], ""),)))
            elif v[0] == "esc":
                out.add(v)
            else:
                out.add(("other", "element of " + unparse(node)[:40]))
        return frozenset(out)

    # ---- calls
    def ev_Call(self, e, env, fi):
        f = e.func
        args = [self.ev(a.value if isinstance(a, ast.Starred) else a, env, fi) for a in e.args]
        kw = {k.arg: self.ev(k.value, env, fi) for k in e.keywords if k.arg}
        if isinstance(f, ast.Attribute):
            out = set()
            for b in self.ev(f.value, env, fi):
                out |= set(self.call_method(b, f.attr, args, kw, e, env, fi))
            return out
        if isinstance(f, ast.Name) and f.id not in env:
            r = self.builtin(f.id, args, kw, e, env, fi)
            if r is not None:
                return r
        out = set()
        for fv in self.ev(f, env, fi):
            out |= set(self.call_value(fv, args, kw, e, fi))
        return out

    def builtin(self, name, args, kw, e, env, fi):
        a0 = args[0] if args else frozenset()
        if name == "str" and len(args) == 1:
            out = set()
            for v in a0:
                ok, pv = self.pyval(v)
                if self.is_text(v) or v[0] == "esc":
                    out.add(v)
                elif ok:
                    out.add(self.const(str(pv)))
                else:
                    out.add(self.other(e))
            return out
        if name == "isinstance" and len(args) == 2:
            t = self.truth(e, env, fi)
            return {self.const(t)} if t is not None else {("bool",)}
        if name in ("list", "tuple", "iter") and len(args) == 1:
            return set(a0)
        if name == "getattr" and len(args) >= 2:
            out = set()
            for k in args[1]:
                ok, pk = self.pyval(k)
                if not (ok and isinstance(pk, str)):
                    return {self.other(e)}
                for b in a0:
                    out |= set(self.attr_of(b, pk, e, fi))
            return out
        if name in ("print", "len", "ord", "chr", "int", "float", "bool", "repr", "id", "hash", "type", "range", "enumerate", "zip",
                    "sorted", "set", "frozenset", "reversed", "max", "min", "sum", "any", "all", "map", "filter", "dict", "open"):
            if name in ("print", "len", "ord", "int", "float", "bool", "id", "hash", "type", "range", "any", "all", "open"):
                return {("other", name + "(…)")}
            return self.generic(name, args, kw, e, fi, frozenset())
        return None

    def generic(self, fname, args, kw, e, fi, recv):
        """a call that is not followed: a tracked string among receiver/arguments stays tracked, with the call as an op"""
        vals = set(recv)
        for a in args:
            vals |= set(a)
        for a in kw.values():
            vals |= set(a)
        r = self.with_op(vals, ("call", unparse(e)[:60], fi.where(e)))
        return r or {self.other(e)}

    def call_method(self, b, m, args, kw, e, env, fi):
        if b[0] in ("obj", "cls"):
            meth = self.pm.find_method(b[1], m)
            if meth is not None:
                return self.call_fn(meth, b, args, kw, e)
            if b[0] == "obj" and m in self.objs[b[2]]:
                out = set()
                for fv in self.objs[b[2]][m]:
                    out |= set(self.call_value(fv, args, kw, e, fi))
                return out
            return self.generic(m, args, kw, e, fi, frozenset())
        if b[0] == "match":
            if m == "group" and (not args or all(self.pyval(v) == (True, 0) for v in args[0])) and len(args) <= 1:
                return {self.text("cmd")}
            return {self.other(e)}
        if m == "sub" and not self.is_text(b) and b[0] != "esc":
            # pattern.sub(repl, string[, count]) or re.sub(pattern, repl, string[, count])
            is_re = b == ("ext", "re")
            pos = list(e.args)
            need = 3 if is_re else 2
            if len(pos) >= need or "string" in kw:
                sv = kw.get("string", args[need - 1] if len(args) >= need else frozenset())
                rv = kw.get("repl", args[need - 2] if len(args) >= need - 1 else frozenset())
                if any(self.is_text(v) for v in sv):
                    pexpr = pos[0] if is_re else e.func.value
                    rexpr = next((k.value for k in e.keywords if k.arg == "repl"), pos[need - 2] if len(pos) >= need - 1 else e)
                    self.events.append({"kind": "sub", "fi": fi, "node": e, "pattern": pexpr, "repl": rv, "repl_expr": rexpr,
                                        "extras": [(nm, vals) for nm, vals in
                                                   [("count", kw.get("count", args[need] if len(args) > need else None)),
                                                    ("flags", kw.get("flags", args[need + 1] if is_re and len(args) > need + 1 else None))]
                                                   if vals is not None]
                                                  + [("extra argument", a) for a in args[need + (2 if is_re else 1):]]})
                    return self.with_op(sv, ("sub", len(self.events) - 1, fi.where(e)))
        if self.is_text(b) or b[0] == "esc":
            if m in QUERIES:
                return {("bool",)}
            return self.with_op({b}, (m, ", ".join(unparse(a) for a in e.args)[:50], fi.where(e)))
        ok, pv = self.pyval(b)
        if ok:
            avs = [[self.pyval(v) for v in a] for a in args]
            if m in ("items", "keys", "values") and isinstance(pv, dict) and not args:
                return {self.const(list(getattr(pv, m)()))}
            if m == "get" and hasattr(pv, "get") and 1 <= len(args) <= 2 and not kw:
                if all(len(a) == 1 and a[0][0] for a in avs):
                    try:
                        return {self.const(pv.get(*[a[0][1] for a in avs]))}
                    except Exception:
                        pass
                return self.lookup(frozenset({b}), args, e, fi)
            if m == "join" and isinstance(pv, str) and len(args) == 1:
                r = self.with_op(args[0], ("join", repr(pv), fi.where(e)))
                if r:
                    return r
            if all(len(a) == 1 and a[0][0] for a in avs) and not kw and isinstance(pv, (str, tuple, list, dict, frozenset)) \
                    and m not in ("append", "extend", "update", "pop", "clear", "sort", "insert", "remove", "setdefault"):
                try:
                    return {self.const(getattr(pv, m)(*[a[0][1] for a in avs]))}
                except Exception:
                    pass
        if m == "get" and 1 <= len(args) <= 2 and not kw and any(self.is_text(v) for v in args[0]):
            return self.lookup(frozenset({b}), args, e, fi)
        return self.generic(m, args, kw, e, fi, frozenset({b}) if self.is_text(b) else frozenset())

    def lookup(self, tbl, args, e, fi):
        dflt = args[1] if len(args) > 1 else frozenset({self.const(None)})
        self.events.append({"kind": "lookup", "fi": fi, "node": e, "table": tbl, "key": args[0], "default": dflt})
        return {("lookup", len(self.events) - 1)}

    def call_value(self, fv, args, kw, e, fi):
        if fv[0] == "fn":
            callee = self.pm.funcs.get(fv[1])
            if callee is not None:
                return self.call_fn(callee, None, args, kw, e)
        if fv[0] == "meth":
            callee = self.pm.funcs.get(fv[1])
            if callee is not None:
                return self.call_fn(callee, fv[2], args, kw, e)
        if fv[0] == "cls":
            return {self.construct(fv[1], args, kw, e)}
        if fv[0] == "lambda":
            node, cenv, cfi = self.lambdas[fv[1]]
            env = dict(cenv)
            for p, a in zip(node.args.args, args):
                env[p.arg] = a
            return self.ev(node.body, env, cfi)
        return self.generic(unparse(e.func), args, kw, e, fi, frozenset())

    def construct(self, cls, args, kw, e):
        obj = self.new_obj(cls)
        init = self.pm.find_method(cls, "__init__")
        if init is not None:
            self.call_fn(init, obj, args, kw, e)
        else:
            flds = list(self.pm.all_fields(cls))
            for i, a in enumerate(args):
                if i < len(flds):
                    self.objs[obj[2]][flds[i]] = a
            for k, v in kw.items():
                self.objs[obj[2]][k] = v
        return obj

    def call_fn(self, callee, selfval, args, kw, e):
        if callee.short in self.stack or len(self.stack) > 12:
            return {("other", "recursive call of " + callee.short)}
        node = callee.node
        if not isinstance(node, (ast.FunctionDef, ast.AsyncFunctionDef)):
            return {("other", "call of " + callee.short)}
        env: dict = dict(self.closures.get(callee.short, {}))
        fa = node.args
        params = list(fa.posonlyargs) + list(fa.args)
        if callee.cls and not callee.is_static and params and callee.parent is None:
            if selfval is not None and selfval[0] == "cls" and not callee.is_classmethod and args:
                env[params[0].arg] = args[0]          # unbound call Class.method(obj, …)
                args = args[1:]
            else:
                env[params[0].arg] = frozenset({selfval if selfval is not None else self.new_obj(callee.cls)})
            params = params[1:]
        allp = list(fa.posonlyargs) + list(fa.args)
        dstart = len(allp) - len(fa.defaults)
        kw = dict(kw)
        for i, p in enumerate(params):
            gi = allp.index(p)
            if i < len(args):
                env[p.arg] = args[i]
            elif p.arg in kw:
                env[p.arg] = kw.pop(p.arg)
            elif gi >= dstart:
                env[p.arg] = self.ev(fa.defaults[gi - dstart], {}, callee)
            else:
                env[p.arg] = frozenset({("other", "parameter " + p.arg)})
        for p, d in zip(fa.kwonlyargs, fa.kw_defaults):
            if p.arg in kw:
                env[p.arg] = kw.pop(p.arg)
            elif d is not None:
                env[p.arg] = self.ev(d, {}, callee)
            else:
                env[p.arg] = frozenset({("other", "parameter " + p.arg)})
        if fa.vararg:
            env[fa.vararg.arg] = frozenset({("other", "*" + fa.vararg.arg)})
        if fa.kwarg:
            env[fa.kwarg.arg] = frozenset({("other", "**" + fa.kwarg.arg)})
        self.stack.append(callee.short)
        try:
            rets: list = []
            out = self.block(node.body, env, callee, rets)
            if out is not None:
                rets.append(frozenset({self.const(None)}))
        finally:
            self.stack.pop()
        res = set()
        for r in rets:
            res |= set(r)
        return res

    # ---- truth and narrowing
    KIND_TYPES = {"text": "str", "esc": "str", "bool": "bool"}

    def truth(self, t, env, fi):
        if isinstance(t, ast.BoolOp):
            ts = [self.truth(v, env, fi) for v in t.values]
            if isinstance(t.op, ast.And):
                return False if any(x is False for x in ts) else (True if all(x is True for x in ts) else None)
            return True if any(x is True for x in ts) else (False if all(x is False for x in ts) else None)
        if isinstance(t, ast.UnaryOp) and isinstance(t.op, ast.Not):
            x = self.truth(t.operand, env, fi)
            return None if x is None else not x
        if isinstance(t, ast.Compare) and len(t.ops) == 1:
            op = t.ops[0]
            l, r = self.ev(t.left, env, fi), self.ev(t.comparators[0], env, fi)
            if isinstance(op, (ast.Is, ast.IsNot)) and r == frozenset({self.const(None)}):
                res = set()
                for v in l:
                    if v == self.const(None):
                        res.add(True)
                    elif v[0] in ("text", "esc", "obj", "cls", "fn", "meth", "cref", "const", "match", "lambda"):
                        res.add(False)
                    else:
                        res.add(None)
                if len(res) == 1 and None not in res:
                    x = res.pop()
                    return x if isinstance(op, ast.Is) else not x
                return None
            if len(l) == 1 and len(r) == 1:
                (ok1, a), (ok2, b) = self.pyval(next(iter(l))), self.pyval(next(iter(r)))
                if ok1 and ok2:
                    try:
                        from ..absint import _cmp
                        return bool(_cmp(op, a, b))
                    except Exception:
                        return None
            return None
        if isinstance(t, ast.Call) and isinstance(t.func, ast.Name) and t.func.id == "isinstance" and len(t.args) == 2:
            names = {x.id if isinstance(x, ast.Name) else x.attr for x in ast.walk(t.args[1]) if isinstance(x, (ast.Name, ast.Attribute))}
            res = set()
            for v in self.ev(t.args[0], env, fi):
                ok, pv = self.pyval(v)
                if v[0] in ("text", "esc"):
                    res.add("str" in names)
                elif ok:
                    res.add(type(pv).__name__ in names or (isinstance(pv, bool) and "int" in names))
                elif v[0] == "obj":
                    res.add(any(n in self.pm.mro(v[1]) for n in names))
                else:
                    res.add(None)
            return res.pop() if len(res) == 1 else None
        vals = self.ev(t, env, fi)
        res = set()
        for v in vals:
            ok, pv = self.pyval(v)
            if ok:
                res.add(bool(pv))
            elif v[0] in ("obj", "cls", "fn", "meth", "match", "lambda"):
                res.add(True)
            else:
                res.add(None)
        return res.pop() if len(res) == 1 else None

    def narrow(self, env, t, branch: bool, fi):
        """refine the values of plain names by the outcome of a test (on a copy of the environment)"""
        if isinstance(t, ast.UnaryOp) and isinstance(t.op, ast.Not):
            return self.narrow(env, t.operand, not branch, fi)
        if isinstance(t, ast.BoolOp):
            conj = isinstance(t.op, ast.And)
            if conj == branch:          # all operands have the branch's outcome
                for v in t.values:
                    env = self.narrow(env, v, branch, fi)
                return env
            undecided = [v for v in t.values if self.truth(v, env, fi) is None]
            if len(undecided) == 1 and all(self.truth(v, env, fi) is (not branch) for v in t.values if v is not undecided[0]):
                return self.narrow(env, undecided[0], branch, fi)
            return env
        if isinstance(t, ast.Name) and t.id in env:
            new = set()
            for v in env[t.id]:
                ok, pv = self.pyval(v)
                if ok:
                    if bool(pv) == branch:
                        new.add(v)
                elif v[0] in ("text", "esc"):
                    new.add(v if branch else self.const(""))      # a falsy string is the empty string
                elif v[0] in ("obj", "cls", "fn", "meth", "match", "lambda"):
                    if branch:
                        new.add(v)
                else:
                    new.add(v)
            if new:
                env[t.id] = frozenset(new)
            return env
        if isinstance(t, ast.Compare) and len(t.ops) == 1 and isinstance(t.left, ast.Name) and t.left.id in env \
                and isinstance(t.ops[0], (ast.Is, ast.IsNot)) and isinstance(t.comparators[0], ast.Constant) and t.comparators[0].value is None:
            is_none = isinstance(t.ops[0], ast.Is) == branch
            none = self.const(None)
            new = {v for v in env[t.left.id] if (v == none) == is_none or (v[0] in ("other", "bool", "lookup") and not is_none)}
            if is_none:
                new = {none}
            if new:
                env[t.left.id] = frozenset(new)
        return env

    # ---- statements
    def join(self, a, b):
        if a is None:
            return b
        if b is None:
            return a
        out = {}
        for k in set(a) | set(b):
            out[k] = frozenset(a.get(k, frozenset())) | frozenset(b.get(k, frozenset()))
        return out

    def block(self, stmts, env, fi, rets):
        for s in stmts:
            env = self.stmt(s, env, fi, rets)
            if env is None:
                return None
        return env

    def bind(self, target, vals, env, fi):
        if isinstance(target, ast.Name):
            env[target.id] = frozenset(vals)
        elif isinstance(target, (ast.Tuple, ast.List)):
            for i, t in enumerate(target.elts):
                sub = set()
                for v in vals:
                    ok, pv = self.pyval(v)
                    if ok and isinstance(pv, (tuple, list)) and len(pv) == len(target.elts):
                        sub.add(self.const(pv[i]))
                    elif self.is_text(v) or v[0] == "esc":
                        sub.add(v)
                    else:
                        sub.add(("other", "unpacked " + unparse(target)[:40]))
                self.bind(t.value if isinstance(t, ast.Starred) else t, sub, env, fi)
        elif isinstance(target, ast.Attribute):
            for b in self.ev(target.value, env, fi):
                if b[0] == "obj":
                    cur = self.objs[b[2]].get(target.attr, frozenset())
                    self.objs[b[2]][target.attr] = frozenset(cur) | frozenset(vals)

    def stored_names(self, node):
        """names (re)bound or mutated in place (acc.append(x), acc.extend(…), acc[i] = x) under node"""
        out = {x.id for x in ast.walk(node) if isinstance(x, ast.Name) and isinstance(x.ctx, ast.Store)}
        for x in ast.walk(node):
            if isinstance(x, ast.Call) and isinstance(x.func, ast.Attribute) and isinstance(x.func.value, ast.Name) \
                    and x.func.attr in ("append", "extend", "insert", "add", "update", "write", "appendleft"):
                out.add(x.func.value.id)
            elif isinstance(x, ast.Subscript) and isinstance(x.ctx, ast.Store) and isinstance(x.value, ast.Name):
                out.add(x.value.id)
        return out

    def stmt(self, s, env, fi, rets):
        k = type(s).__name__
        if k == "Return":
            rets.append(self.ev(s.value, env, fi) if s.value is not None else frozenset({self.const(None)}))
            return None
        if k == "Raise":
            return None
        if k in ("Pass", "Import", "ImportFrom", "Global", "Nonlocal", "Assert", "Delete", "ClassDef"):
            return env
        if k == "Expr":
            self.ev(s.value, env, fi)
            return env
        if k == "Assign":
            vals = self.ev(s.value, env, fi)
            for t in s.targets:
                self.bind(t, vals, env, fi)
            return env
        if k == "AnnAssign":
            if s.value is not None:
                self.bind(s.target, self.ev(s.value, env, fi), env, fi)
            return env
        if k == "AugAssign":
            cur = self.ev(s.target, env, fi) if isinstance(s.target, ast.Name) and s.target.id in env else frozenset()
            vals = self.ev(s.value, env, fi)
            r = self.with_op(set(cur) | set(vals), ("augmented assignment", unparse(s)[:50], fi.where(s)))
            self.bind(s.target, r or {self.other(s.target)}, env, fi)
            return env
        if k == "If":
            t = self.truth(s.test, env, fi)
            if t is True:
                return self.block(s.body, self.narrow(env, s.test, True, fi), fi, rets)
            if t is False:
                return self.block(s.orelse, self.narrow(env, s.test, False, fi), fi, rets)
            e1 = self.block(s.body, self.narrow(dict(env), s.test, True, fi), fi, rets)
            e2 = self.block(s.orelse, self.narrow(dict(env), s.test, False, fi), fi, rets)
            return self.join(e1, e2)
        if k in ("For", "AsyncFor"):
            return self.loop(s, env, fi, rets)
        if k == "While":
            return self.generic_loop(s, env, fi, rets, lambda e: None)
        if k == "Try":
            e1 = self.block(s.body, dict(env), fi, rets)
            if e1 is not None and s.orelse:
                e1 = self.block(s.orelse, e1, fi, rets)
            out = e1
            for h in s.handlers:
                # exceptional paths are outside the documented behaviour: their returns are not collected
                eh = dict(env)
                if h.name:
                    eh[h.name] = frozenset({("other", "exception")})
                out = self.join(out, self.block(h.body, eh, fi, []))
            if out is not None and s.finalbody:
                out = self.block(s.finalbody, out, fi, rets)
            return out
        if k in ("With", "AsyncWith"):
            for it in s.items:
                v = self.ev(it.context_expr, env, fi)
                if it.optional_vars is not None:
                    self.bind(it.optional_vars, v, env, fi)
            return self.block(s.body, env, fi, rets)
        if k in ("FunctionDef", "AsyncFunctionDef"):
            short = f"{fi.short}.<locals>.{s.name}"
            self.closures[short] = env          # by reference: later bindings of the enclosing scope are visible
            env[s.name] = frozenset({("fn", short)})
            return env
        self.unsupported.append(f"{fi.short}: {k} statement at {fi.where(s)}")
        return env

    def loop(self, s, env, fi, rets):
        itv = self.ev(s.iter, env, fi)
        if id(s) in self.escape_nodes:
            self.events.append({"kind": "chars", "fi": fi, "node": s, "vals": itv})
            for n in self.stored_names(s):
                env[n] = frozenset({("esc",)})
            return env
        # an ordered replacement table applied to a string:  for k, v in TABLE: x = x.replace(k, v)
        pairs = None
        if len(itv) == 1:
            ok, pv = self.pyval(next(iter(itv)))
            if ok and isinstance(pv, dict):
                pv = list(pv)
            if ok and isinstance(pv, (list, tuple)) and all(isinstance(x, (tuple, list)) and len(x) == 2 and all(isinstance(y, str) for y in x) for x in pv):
                pairs = tuple((a, b) for a, b in pv)
        if pairs is not None and isinstance(s.target, (ast.Tuple, ast.List)) and len(s.target.elts) == 2 \
                and all(isinstance(t, ast.Name) for t in s.target.elts) and len(s.body) == 1 and not s.orelse:
            kn, vn = s.target.elts[0].id, s.target.elts[1].id
            b = s.body[0]
            if isinstance(b, ast.Assign) and len(b.targets) == 1 and isinstance(b.targets[0], ast.Name) and isinstance(b.value, ast.Call) \
                    and isinstance(b.value.func, ast.Attribute) and b.value.func.attr == "replace" \
                    and isinstance(b.value.func.value, ast.Name) and b.value.func.value.id == b.targets[0].id \
                    and [unparse(a) for a in b.value.args] == [kn, vn] and not b.value.keywords and b.targets[0].id in env:
                x = b.targets[0].id
                r = self.with_op(env[x], ("map", pairs, fi.where(s)))
                if r:
                    env[x] = frozenset(r) | frozenset(v for v in env[x] if not self.is_text(v) and v[0] != "esc")
                    return env
        out = self.generic_loop(s, env, fi, rets, lambda e: self.bind(s.target, self.elems(itv, s.iter), e, fi))
        if s.orelse and out is not None:
            out = self.block(s.orelse, out, fi, rets)
        return out

    def generic_loop(self, s, env, fi, rets, bind_iteration):
        """a loop over a symbolic collection: one generic iteration from the join of the entry state and the state
        after an iteration (inductive step); if that join is not stable after a second round the loop keeps
        transforming a tracked value and the analysis stops there (recorded -> gap)"""
        state = dict(env)
        for _round in range(3):
            e1 = dict(state)
            bind_iteration(e1)
            e1 = self.block(s.body, e1, fi, rets if _round == 0 else [])
            nxt = self.join(state, e1)
            if nxt is None or all(frozenset(nxt.get(k, ())) == frozenset(state.get(k, ())) for k in nxt):
                return nxt
            state = nxt
        self.unsupported.append(f"{fi.short}: the loop at {fi.where(s)} transforms a tracked value on every iteration (no fixed point)")
        return state


def _op_desc(op) -> str:
    if op[0] == "map":
        return f"replacement table ({len(op[1])} entries)"
    if op[0] == "sub":
        return "regex substitution"
    if op[0] == "call":
        return f"`{op[1]}`"
    return f"{op[0]}({op[1]})" if op[0] not in ("concat", "format", "index", "element", "augmented assignment") else f"{op[0]} `{op[1]}`"


FLAG_FIELD = "convert"
TEXT_FIELD = "text"


def run_world(ctx: Ctx, flag: bool, escape_nodes: set):
    """symbolic run of the escaper entry point with the conversion flag fixed; returns (executor, tracked strings
    that reach the per-character escaper, other values that reach it)"""
    from .c10 import ENTRY
    pm = ctx.pm
    entry = pm.func(ENTRY)
    if pm.field_decl(entry.cls, FLAG_FIELD) is None or pm.field_decl(entry.cls, TEXT_FIELD) is None:
        raise AnalysisError(f"{entry.cls} no longer declares the fields {TEXT_FIELD!r} / {FLAG_FIELD!r} the conversion rules are anchored on")
    sy = Sym(pm, {(entry.cls, FLAG_FIELD): flag}, {(entry.cls, TEXT_FIELD)}, escape_nodes)
    obj = sy.new_obj(entry.cls)
    sy.entry_returns = frozenset(sy.call_fn(entry, obj, [], {}, None))
    texts, rest = set(), set()
    for ev in sy.events:
        if ev["kind"] == "chars":
            for v in ev["vals"]:
                (texts if v[0] == "text" and v[1] == "doc" else rest).add(v)
    return sy, texts, rest


def r11_4(ctx: Ctx, worlds: dict | None = None) -> dict:
    """R11.4: what happens to the text before it reaches the character escaper, for each value of the conversion
    flag.  Flag off: nothing.  Flag on: the ordered replacement table RTF_CHAR_MAPPING (complete, in order), then one
    regex substitution (the LaTeX pass); nothing else."""
    from ..callgraph import CallGraph
    from .c10 import ENTRY, find_escape_loop
    pm = ctx.pm
    entry = pm.func(ENTRY)
    mapping = const_attr(pm, "RTFConstants", "RTF_CHAR_MAPPING")
    want_pairs = tuple(mapping.items()) if isinstance(mapping, dict) else None
    if worlds is None:
        loops = find_escape_loop(ctx, CallGraph(pm))
        nodes = {id(lp.node) for _, lp in loops}
        worlds = {flag: run_world(ctx, flag, nodes) for flag in (True, False)}
    for flag in (True, False):
        sy, texts, rest = worlds[flag]
        if sy.unsupported:
            ctx.gap("R11.4", f"{FLAG_FIELD}={flag}: statement outside the symbolic executor's subset on the text path ({sy.unsupported[0]})")
        unknown = sorted(str(v)[:70] for v in rest if v[0] not in ("const",))
        if unknown and texts:
            ctx.gap("R11.4", f"{FLAG_FIELD}={flag}: besides the tracked text, value(s) that could not be classified reach the per-character escaper "
                             f"({unknown[:2]}); cut-off of the symbolic run")
        if not texts:
            ctx.gap("R11.4", f"{FLAG_FIELD}={flag}: the text could not be followed from {entry.cls}.{TEXT_FIELD} to the per-character escaper "
                             f"(values reaching it: {sorted(str(v)[:60] for v in rest)[:3]})")
            continue
        for tv in sorted(texts, key=str):
            ops = tv[2]
            ctx.instance("R11.4", entry.where(), f"{FLAG_FIELD}={flag}: escaper input = text" + "".join(" -> " + _op_desc(o) for o in ops))
            maps = [o for o in ops if o[0] == "map"]
            subs = [o for o in ops if o[0] == "sub"]
            extra = [o for o in ops if o[0] not in ("map", "sub")]
            if not flag:
                for o in maps:
                    ctx.violation("R11.4", entry.short, "mapping loop not gated", o[2] or entry.where(),
                                  "special-sequence replacement runs even when text_convert is off")
                for o in subs:
                    ctx.violation("R11.4", entry.short, "LaTeX pass not gated", o[2] or entry.where(),
                                  "the LaTeX substitution runs even when text_convert is off (it is not controlled by this cell's convert flag)")
                for o in extra:
                    ctx.violation("R11.4", entry.short, f"ungated {_op_desc(o)}"[:90], o[2] or entry.where(),
                                  f"{_op_desc(o)} alters the text regardless of text_convert (surrounding blanks/characters must be preserved)")
                continue
            if not maps:
                ctx.violation("R11.4", entry.short, "mapping loop missing", entry.where(),
                              "with conversion on, the ordered replacement loop over RTF_CHAR_MAPPING is not applied to the text")
            for o in maps:
                if want_pairs is not None and o[1] != want_pairs:
                    missing = [k for k, _ in want_pairs if k not in dict(o[1])]
                    ctx.violation("R11.4", entry.short, "mapping loop table", o[2] or entry.where(),
                                  "the replacement loop does not apply RTF_CHAR_MAPPING completely and in its order"
                                  + (f" (missing keys {missing})" if missing else " (entries or order differ)"))
            if len(maps) > 1:
                ctx.violation("R11.4", entry.short, "mapping loop repeated", maps[1][2] or entry.where(), "the replacement table is applied more than once")
            if not subs:
                ctx.violation("R11.4", entry.short, "no LaTeX pass", entry.where(),
                              "with conversion on, no regex substitution (LaTeX pass) is applied to the text before escaping")
            elif maps and ops.index(subs[0]) < ops.index(maps[0]):
                ctx.violation("R11.4", entry.short, "LaTeX pass before mapping", subs[0][2] or entry.where(),
                              "the LaTeX pass runs before the special-sequence replacement (documented order: replacement table, then LaTeX)")
            for o in extra:
                ctx.violation("R11.4", entry.short, f"extra rewriting {_op_desc(o)}"[:90], o[2] or entry.where(),
                              f"{_op_desc(o)} rewrites the text in addition to the documented token table and LaTeX pass; characters other than the "
                              "documented tokens are altered (e.g. splitlines() also splits on U+2028/U+2029)")
    ctx.floor("R11.4", 2)
    return worlds


def _same(vals, want) -> bool:
    return set(vals) == {want}


def r11_5_6_7(ctx: Ctx, table: dict, worlds: dict) -> list:
    """R11.7 the LaTeX pass is one regex substitution whose callback maps the whole match to a table look-up;
    R11.5 the look-up is the identity on a miss; R11.6 the table looked up is the dictionary itself."""
    pm = ctx.pm
    sy, texts, _ = worlds[True]
    cmd = Sym.text("cmd")
    used = sorted({o[1] for tv in texts for o in tv[2] if o[0] == "sub"})
    subs = [sy.events[i] for i in used]
    entry_where = pm.func("TextContent._convert_special_chars").where()
    for tv in texts:
        n = len([o for o in tv[2] if o[0] == "sub"])
        if n != 1:
            ctx.violation("R11.7", "LaTeX pass", "not a single pattern.sub", entry_where,
                          f"LaTeX conversion is not one left-to-right `pattern.sub(callback, text)` ({n} regex substitutions are applied to the text); "
                          "token-wise or global replacement can rewrite parts of longer unknown commands")
    lookups_seen = []
    for ev in subs:
        fi, node = ev["fi"], ev["node"]
        ctx.instance("R11.7", fi.where(node), f"{fi.short}: regex substitution `{unparse(node)[:70]}`")
        # count=0 / flags=0 are the defaults ("replace all", no flags): only a value that can be non-zero changes the pass
        for nm, vals in ev["extras"]:
            pvs = [sy.pyval(v) for v in vals]
            nonzero = [pv for ok, pv in pvs if ok and pv not in (0, None)]
            if nonzero:
                ctx.violation("R11.7", fi.short, "substitution with count/flags", fi.where(node),
                              f"the substitution is limited or modified: {nm}={nonzero[0]!r} (only the first matches are converted / matching is altered)")
            elif not all(ok for ok, _ in pvs):
                ctx.gap("R11.7", f"{fi.short}: `{unparse(node)[:70]}` passes a {nm} whose value could not be evaluated to a constant; "
                                 "whether every command is converted is undecided")
        n0 = len(sy.events)
        res = set()
        for cb in ev["repl"]:
            if cb[0] in ("fn", "meth", "lambda"):
                res |= set(sy.call_value(cb, [frozenset({("match",)})], {}, node, fi))
            else:
                res.add(("other", "non-callable replacement " + str(cb)[:40]))
        ctx.instance("R11.7", fi.where(node), f"callback `{unparse(ev['repl_expr'])[:50]}` returns "
                     + ", ".join(sorted("the matched command" if v == cmd else ("table look-up" if v[0] == "lookup" else str(v)[:50]) for v in res)))
        if not any(v[0] == "lookup" for v in res):
            ctx.violation("R11.7", fi.short, "callback without table look-up", fi.where(node),
                          "the substitution callback never looks the matched command up in the symbol table")
        for v in sorted(res, key=str):
            if v == cmd:
                continue
            if v[0] == "lookup":
                lk = sy.events[v[1]]
                lookups_seen.append(lk)
                lfi, lnode = lk["fi"], lk["node"]
                kexpr = unparse(lnode.args[0]) if isinstance(lnode, ast.Call) else unparse(lnode.slice)
                if not _same(lk["key"], cmd):
                    ctx.violation("R11.7", lfi.short, f"look-up key {kexpr}"[:80], lfi.where(lnode),
                                  f"{lfi.short}: the table is looked up with {kexpr}, which is not the whole matched command as written "
                                  "(a rewritten or partial command is translated)")
                ctx.instance("R11.5", lfi.where(lnode), f"{lfi.short}: look-up `{unparse(lnode)[:70]}`")
                if any(d[0] == "raises" and d[1] == "maybe handled" for d in lk["default"]):
                    ctx.gap("R11.5", f"{lfi.short}: what `{unparse(lnode)[:60]}` yields on a miss depends on exception handling that is not modelled")
                elif not (_same(lk["default"], cmd) or set(lk["default"]) == set(lk["key"])):
                    ctx.violation("R11.5", lfi.short, unparse(lnode)[:80], lfi.where(lnode),
                                  f"{lfi.short}: `{unparse(lnode)[:80]}` does not return the command itself on a miss "
                                  "(unknown commands must stay verbatim)")
                continue
            what = "a rewritten command" if v[0] == "text" else str(v[1] if len(v) > 1 else v)[:60]
            ctx.violation("R11.7", fi.short, f"callback returns {what}"[:90], fi.where(node),
                          f"{fi.short}: the substitution callback can return {what}: neither the full-command look-up nor the command itself")
    if not subs:
        ctx.violation("R11.7", "LaTeX pass", "no regex substitution", entry_where,
                      "no `pattern.sub(callback, text)` is applied to the text on the conversion path")
    ctx.floor("R11.7", 2)
    # R11.6 the table that is looked up is the dictionary itself
    for lk in lookups_seen:
        lfi, lnode = lk["fi"], lk["node"]
        texpr = unparse(lnode.func.value if isinstance(lnode, ast.Call) else lnode.value)
        for tv in lk["table"]:
            ok, pv = sy.pyval(tv)
            if not (ok and isinstance(pv, dict)):
                ctx.gap("R11.6", f"{lfi.short}: the table `{texpr}` looked up by the LaTeX pass could not be evaluated to a constant mapping")
                continue
            missing = [k for k in table if k not in pv]
            changed = [k for k in table if k in pv and pv[k] != table[k]]
            added = [k for k in pv if k not in table]
            ctx.instance("R11.6", lfi.where(lnode), f"{lfi.short}: `{texpr}` has {len(pv)} entries; vs dictionary: {len(missing)} missing, "
                         f"{len(changed)} changed, {len(added)} added")
            if missing or changed or added:
                ctx.violation("R11.6", lfi.short, f"mapper table {texpr}", lfi.where(lnode),
                              f"the symbol mapper no longer uses the dictionary table as is: {len(missing)} command(s) missing"
                              f"{' (e.g. ' + repr(missing[0]) + ')' if missing else ''}, {len(changed)} altered, {len(added)} added")
    if len(table) < 682:
        ctx.violation("R11.6", "latex_to_char", f"{len(table)} entries", pm.module("rtflite.dictionary.unicode_latex").path + ":1",
                      f"dictionary has {len(table)} commands, 682 are documented as supported")
    # keys unique / agree with code point column
    ul = const_name(pm, "rtflite.dictionary.unicode_latex", "unicode_latex")
    if ul is not NOC:
        keys = [x[1] for x in ul]
        dup = sorted({k for k in keys if keys.count(k) > 1})
        bad = [x for x in ul if int(x[0], 16) != x[2]]
        ctx.instance("R11.6", "src/rtflite/dictionary/unicode_latex.py:1", f"{len(ul)} rows; duplicate commands {dup[:5]}; hex/int disagreements {len(bad)}")
        for k in dup:
            ctx.violation("R11.6", "unicode_latex", f"duplicate {k}", "src/rtflite/dictionary/unicode_latex.py:1", f"command {k} listed twice with different characters")
        for x in bad[:5]:
            ctx.violation("R11.6", "unicode_latex", f"row {x}", "src/rtflite/dictionary/unicode_latex.py:1", f"row {x}: hex code and integer code disagree")
    # plumbing: every TextContent(...) construction on the render path passes convert= from text_convert
    from ..consteval import expand_keywords
    from ..astmatch import resolve
    for fi in pm.iter_funcs():
        for call in walk_no_nested(fi.node):
            if isinstance(call, ast.Call) and dotted(call.func).split(".")[-1] == "TextContent":
                pairs, complete = expand_keywords(pm, fi, call)
                kw = dict(pairs)
                if TEXT_FIELD not in kw:
                    continue
                if not complete and FLAG_FIELD not in kw:
                    ctx.gap("R11.5", f"{fi.short}: TextContent(…, **mapping) at {fi.where(call)}: the mapping could not be expanded")
                    continue
                cv = kw.get(FLAG_FIELD)
                txt = unparse(cv) if cv is not None else "<default True>"
                fed = False
                if cv is not None:
                    src_e = resolve(cv, fi.node)
                    names = {x.value for x in ast.walk(src_e) if isinstance(x, ast.Constant) and isinstance(x.value, str)} | \
                            {x.attr for x in ast.walk(src_e) if isinstance(x, ast.Attribute)}
                    fed = "text_convert" in names or (isinstance(src_e, ast.Constant) and src_e.value is False)
                ctx.instance("R11.5", fi.where(call), f"{fi.short}: TextContent(convert={txt})")
                if not fed:
                    ctx.violation("R11.5", fi.short, f"convert={txt}", fi.where(call),
                                  f"{fi.short}: TextContent is built with convert={txt}, not from the component's text_convert at the same position")
    ctx.floor("R11.5", 4)
    return subs


def r11_defaults(ctx: Ctx) -> None:
    """per-component defaults of text_convert (documented: page header/footer/subline off, others on)"""
    from ..consteval import const_call
    want = {"DefaultsFactory.get_page_header_defaults": False, "DefaultsFactory.get_page_footer_defaults": False,
            "DefaultsFactory.get_subline_defaults": False, "DefaultsFactory.get_title_defaults": True}
    for short, val in want.items():
        fi = ctx.pm.func(short)
        d = const_call(ctx.pm, short)
        if not isinstance(d, dict):
            ctx.gap("R11.5", f"{short}: the defaults it returns could not be evaluated to a constant mapping")
            continue
        got = d.get("text_convert")
        ctx.instance("R11.5", fi.where(), f"{short}: text_convert default {got}")
        if got not in ([val], (val,), val):
            ctx.violation("R11.5", short, f"text_convert default {got}", fi.where(), f"{short}: default text_convert is {got}, documented {[val]}")


def check(ctx: Ctx) -> None:
    pm = ctx.pm
    ctx.explain(
        "R11.1 confluence of the ordered replacement table (no output re-translated, no key destroyed, documented token set); "
        "R11.2 the tokenizer regex parsed with re._parser has the documented form (greedy letter run, optional {[^}]*}) and "
        "fully matches every one of the dictionary keys; R11.3 control words injected before the LaTeX pass hit the dictionary "
        "exactly for \\geq/\\leq; R11.4 symbolic run of the text pipeline per value of the convert flag: flag off -> the escaper receives the text unchanged, flag on -> replacement table (complete, in order) then one regex substitution, nothing else; "
        "R11.5 flag plumbing, defaults and identity on miss; R11.6 mapper table = dictionary (682 unique commands); "
        "R11.7 conversion is one left-to-right pattern.sub with whole-match lookup.")
    ctx.assume("str.replace and re.sub behave as documented; the dictionary module is data (evaluated as constants)")
    ctx.assume("symbolic run (R11.4-R11.7): the document text, the regex match and the matched command are uninterpreted symbols; "
               "the conversion flag is enumerated over both values; conditions not decided by source constants are followed on both "
               "sides and joined; loops over symbolic collections are one generic iteration iterated to a fixed point (no fixed point -> gap); "
               "the replacement loop is recognised over the source's own literal table; returns inside exception handlers are not part of "
               "the documented behaviour and are not collected")
    ctx.undecided("conversion results for arbitrary strings beyond what follows from the table/regex/gating rules")
    mapping = const_attr(pm, "RTFConstants", "RTF_CHAR_MAPPING")
    table = const_name(pm, "rtflite.dictionary.unicode_latex", "latex_to_char")
    if mapping is NOC or table is NOC:
        raise AnalysisError("RTF_CHAR_MAPPING / latex_to_char are no longer constant tables")
    r11_1(ctx, mapping)
    worlds = r11_4(ctx)
    subs = r11_5_6_7(ctx, table, worlds)
    rx = r11_2(ctx, table, subs)
    r11_3(ctx, mapping, table, rx)
    r11_defaults(ctx)
    ctx.extra["table_rows"] = len(table)
    ctx.extra["exhaustive"] = True
