"""Rules over the table pipeline shared by C02, C03, C08 and C09 (slicing cursors, index agreement,
column removal, width provenance, attribute binding, block expansion).

Every rule here is either structural / dataflow (column removal, width provenance at call sites) or an
*abstract evaluation over symbolic inputs* (class TDT below, an extension of c05.LDT / sa/dtab.DT): the
analysed function (or one generic iteration of a loop over a symbolic collection) is evaluated with every
parameter an uninterpreted symbol, all valuations of the consulted conditions are enumerated, and the
verdict is read off the resulting terms (which cell / attribute entry / width reaches which constructor
argument, linear forms of cursors and indices, provenance of frames), so it holds for all table shapes,
page layouts and contents.  No mock frames, no chosen shapes, no sample values.  A construct the
evaluator cannot give structure to is an analysis gap (ctx.gap), never a verdict."""
from __future__ import annotations

import ast
from dataclasses import dataclass
from fractions import Fraction
from typing import Any

from ..dtab import Sym, _Break, _Continue, _OPS, _cmp
from ..pm import AnalysisError, dotted, unparse, walk_no_nested
from ..report import Ctx
from .c05 import (LDT, BoolSym, CallSym, Carried, CmpSym, ElemSym, Init, LinSym, RangeSym, SliceSym, SubSym, _cell, _pos_params, _same, cover, has_sym,
                  lin_of, lin_sub, path_of, run_block, sym_env, temps_for)


def anc(n, stop):
    p = getattr(n, "_parent", None)
    while p is not None and p is not stop:
        yield p
        p = getattr(p, "_parent", None)


@dataclass(frozen=True, eq=False)
class AttrSym(Sym):
    base: Any = None
    attr: str = ""


@dataclass(frozen=True, eq=False)
class OpSym(Sym):
    """non-linear arithmetic / sequence repetition: left <op> right"""
    op: str = ""
    left: Any = None
    right: Any = None


@dataclass(frozen=True, eq=False)
class FmtSym(Sym):
    """an f-string with symbolic pieces: pieces = literal strings and terms, in order"""
    pieces: tuple = ()


@dataclass(frozen=True, eq=False)
class CompSym(Sym):
    """a comprehension over a symbolic iterable: `elt` for the generic element `var` of `source` (None: filtered out on this path)"""
    elt: Any = None
    var: Any = None
    source: Any = None
    kind: str = "list"


_BINSYM = {ast.Mult: "*", ast.Div: "/", ast.FloorDiv: "//", ast.Mod: "%", ast.Pow: "**", ast.Add: "+", ast.Sub: "-"}
_NUM = (int, float, Fraction)


def tparts(v, depth: int = 0):
    """the symbolic value and everything it was built from"""
    if depth > 14:
        return
    yield v
    subs: tuple = ()
    if isinstance(v, dict):
        subs = tuple(v.values())
    elif isinstance(v, (list, tuple)):
        subs = tuple(v)
    elif isinstance(v, ElemSym):
        subs = (v.source,)
    elif isinstance(v, SubSym):
        subs = (v.base, v.key)
    elif isinstance(v, SliceSym):
        subs = (v.base, v.lo, v.hi)
    elif isinstance(v, CallSym):
        subs = (v.recv,) + tuple(v.args) + tuple(x for _k, x in v.kw)
    elif isinstance(v, RangeSym):
        subs = (v.lo, v.hi)
    elif isinstance(v, LinSym):
        subs = tuple(v.terms)
    elif isinstance(v, CmpSym):
        subs = (v.left, v.right)
    elif isinstance(v, BoolSym):
        subs = tuple(v.operands)
    elif isinstance(v, Carried):
        subs = (v.entry,)
    elif isinstance(v, AttrSym):
        subs = (v.base,)
    elif isinstance(v, OpSym):
        subs = (v.left, v.right)
    elif isinstance(v, FmtSym):
        subs = tuple(v.pieces)
    elif isinstance(v, CompSym):
        subs = (v.elt, v.var, v.source)
    for x in subs:
        yield from tparts(x, depth + 1)


def roots(v) -> set[str]:
    """names of the entry values (parameters / locals on entry) a term is built from"""
    return {p.path for p in tparts(v) if isinstance(p, Init) and not isinstance(p, Carried)} | {p.path for p in tparts(v) if isinstance(p, Carried)}


class TDT(LDT):
    """LDT with structured attribute / product / f-string / comprehension terms, opaque local closures, no implicit inlining of
    methods, and havoc of loop-written locals after a generic (or skipped) loop.

    watch: calls recorded as effects and returned as CallSym;  inline: method names that may be inlined (static helpers);
    passthrough: methods that return their receiver (`x._set_default()`)"""

    _BUILTINS = ("len", "max", "min", "sum", "abs", "round", "sorted", "reversed", "enumerate", "zip", "list", "tuple", "set", "frozenset", "iter", "dict")

    def __init__(self, pm, watch=(), skip_loops=(), inline=(), passthrough=(), opaque_closures=True, havoc=True, **kw):
        super().__init__(pm, watch=watch, skip_loops=skip_loops, **kw)
        self.inline = set(inline)
        self.passthrough = set(passthrough)
        self.opaque_closures = opaque_closures
        self.havoc = havoc
        self.closures: dict[str, ast.AST] = {}
        self.generic_lists: set[int] = set()       # accumulators appended to inside a generic iteration: one element stands for any number
        self._keep: list = []

    # ---- terms
    def ev_Attribute(self, n, env):
        base = self.ev(n.value, env)
        self._pre[id(n.value)] = base
        try:
            r = super().ev_Attribute(n, env)
        finally:
            self._pre.pop(id(n.value), None)
        if isinstance(base, Sym) and type(r) is Sym:
            return AttrSym(r.path, r.cls, base, n.attr)
        return r

    def binop(self, op, l, r, node):
        l, r = self.concrete(l), self.concrete(r)
        sym = _BINSYM.get(type(op))
        if sym and (has_sym(l) or has_sym(r)):
            if sym in ("+", "-"):
                a, b = lin_of(l), lin_of(r)
                if a is not None and b is not None:
                    return super().binop(op, l, r, node)
            elif sym == "*" and (isinstance(l, _NUM) and not isinstance(l, bool) and isinstance(r, Sym) or isinstance(r, _NUM) and not isinstance(r, bool) and isinstance(l, Sym)):
                k, x = (l, r) if isinstance(l, _NUM) else (r, l)
                d = {t: c * k for t, c in (lin_of(x) or {}).items()}
                if d and set(d) != {""}:
                    items = tuple(sorted(d.items()))
                    txt = " + ".join((f"{c}" if t == "" else (t if c == 1 else f"{c}*{t}")) for t, c in items)
                    raw = {t.path: t for t in x.terms} if isinstance(x, LinSym) else {x.path: x}
                    return LinSym(txt, None, items, tuple(raw[t] for t, _c in items if t in raw))
            return OpSym(f"({path_of(l)} {sym} {path_of(r)})", None, sym, l, r)
        return super().binop(op, l, r, node)

    def ev_UnaryOp(self, n, env):
        if isinstance(n.op, ast.USub):
            v = self.concrete(self.ev(n.operand, env))
            if isinstance(v, Sym):
                return self.binop(ast.Sub(), 0, v, n)
            self._pre[id(n.operand)] = v
        return super().ev_UnaryOp(n, env)

    def ev_JoinedStr(self, n, env):
        pieces: list = []
        for v in n.values:
            if isinstance(v, ast.Constant):
                pieces.append(str(v.value))
            else:
                x = self.concrete(self.ev(v.value, env))
                if isinstance(x, Sym) or has_sym(x):
                    pieces.append(x)
                else:
                    pieces.append(str(x))
        if all(isinstance(p, str) for p in pieces):
            return "".join(pieces)
        merged: list = []
        for p in pieces:
            if isinstance(p, str) and merged and isinstance(merged[-1], str):
                merged[-1] += p
            else:
                merged.append(p)
        return FmtSym("f'" + "".join(p if isinstance(p, str) else "{" + path_of(p) + "}" for p in merged) + "'", None, tuple(merged))

    def assign(self, t, v, env):
        if isinstance(t, ast.Subscript) and not isinstance(t.slice, ast.Slice):
            base = self.concrete(self.ev(t.value, env))
            if isinstance(base, Sym):
                k = self.concrete(self.ev(t.slice, env))
                self.run_state.effects.append(("setitem", base, k, v, t))
                self.stores[f"{base.path}[{path_of(k)}]"] = v
                return
            self._pre[id(t.value)] = base
        return super().assign(t, v, env)

    def ev_Subscript(self, n, env):
        base = self.concrete(self.ev(n.value, env))
        if isinstance(base, Sym) and not isinstance(n.slice, ast.Slice):
            k = self.concrete(self.ev(n.slice, env))
            p = f"{base.path}[{path_of(k)}]"
            if p in self.stores:
                return self.stores[p]
            self._pre[id(n.slice)] = k
        elif isinstance(base, dict) and not isinstance(n.slice, ast.Slice):
            k = self.concrete(self.ev(n.slice, env))
            if isinstance(k, Sym) and k.path not in base and not isinstance(k, ElemSym) or (not isinstance(k, Sym) and has_sym(k) and k not in base):
                return SubSym(f"{{…}}[{path_of(k)}]", None, Sym("{…}"), k)          # a table indexed by a symbolic key
            self._pre[id(n.slice)] = k
        self._pre[id(n.value)] = base
        try:
            return super().ev_Subscript(n, env)
        finally:
            self._pre.pop(id(n.value), None)
            self._pre.pop(id(n.slice), None)

    def ev_NamedExpr(self, n, env):
        v = self.ev(n.value, env)
        e = env
        while e is not None:
            e[n.target.id] = v
            e = e.get("__outer__")
        return v

    def _comp(self, n, env, kind):
        if len(n.generators) == 1:
            g = n.generators[0]
            it = self.concrete(self.ev(g.iter, env))
            if isinstance(it, dict):
                it = list(it)
            if not isinstance(it, (list, tuple, range)):
                for w in ast.walk(n):
                    if isinstance(w, ast.NamedExpr) and w.target.id in env and not isinstance(env[w.target.id], Init):
                        env[w.target.id] = Carried(w.target.id, None, env[w.target.id])
                elem = ElemSym(f"∀{unparse(g.target)}∈{path_of(it)}", None, it)
                e2 = dict(env)
                e2["__outer__"] = env
                self.assign(g.target, elem, e2)
                self.run_state.effects.append(("comp", n, it, elem))
                kept = all(self.truth(self.ev(c, e2)) for c in g.ifs)
                elt = None
                if kept:
                    elt = (self.ev(n.key, e2), self.ev(n.value, e2)) if kind == "dict" else self.ev(n.elt, e2)
                return CompSym(f"[{path_of(elt) if kept else '-'} for {elem.path}]", None, elt, elem, it, kind)
            self._pre[id(g.iter)] = it
            return super()._comp(n, env, kind)
        # several generators (a flattening comprehension): one generic element per generator, innermost last; the result is a comprehension term
        # (its length is not modelled), not a list of one element
        e = dict(env)
        e["__outer__"] = env
        elem = it = None
        for g in n.generators:
            it = self.concrete(self.ev(g.iter, e))
            if isinstance(it, dict):
                it = list(it)
            if isinstance(it, (list, tuple, range)) and len(it) == 0 and id(it) not in self.generic_lists:
                return {} if kind == "dict" else []            # a literal empty sequence: nothing is produced
            elem = ElemSym(f"∀{unparse(g.target)}∈{path_of(it)}", None, it)
            self.assign(g.target, elem, e)
            self.run_state.effects.append(("comp", n, it, elem))
            if not all(self.truth(self.ev(c, e)) for c in g.ifs):
                return CompSym(f"[- for {elem.path}]", None, None, elem, it, kind)
        elt = (self.ev(n.key, e), self.ev(n.value, e)) if kind == "dict" else self.ev(n.elt, e)
        return CompSym(f"[{path_of(elt)} for {elem.path}]", None, elt, elem, it, kind)

    def ev_SetComp(self, n, env):
        return self._comp(n, env, "set")

    # ---- statements
    def stmt(self, s, env):
        if isinstance(s, ast.AugAssign):
            cur = self.ev(s.target, env)                    # evaluated once (LDT evaluates the operands twice)
            v = self.ev(s.value, env)
            self.run_state.effects.append(("call", "aug" + type(s.op).__name__, cur, (v,), {}, s, None))
            if isinstance(cur, list) and isinstance(s.op, ast.Add):
                if isinstance(v, (list, tuple)):
                    cur.extend(v)
                else:
                    cur.append(v)
                return
            self.assign(s.target, self.binop(s.op, cur, v, s), env)
            return
        return super().stmt(s, env)

    # ---- loops
    def _written(self, s) -> set[str]:
        out = {t.id for t in ast.walk(s.target) if isinstance(t, ast.Name)}
        for st in s.body:
            for t in ast.walk(st):
                if isinstance(t, ast.Name) and isinstance(t.ctx, ast.Store):
                    out.add(t.id)
        return out

    def _for(self, s, env):
        if any(s is x for x in self.skip_loops):
            self.run_state.effects.append(("loop", s, dict(env)))
            for nme in self._written(s):
                env[nme] = Init(nme)
            return
        it = self.concrete(self.ev(s.iter, env))
        if isinstance(it, dict):
            it = list(it)
        if isinstance(it, (list, tuple, range)):
            self.run_state.effects.append(("iter", s, it, None))
            try:
                for x in it:
                    self.assign(s.target, x, env)
                    try:
                        self.block(s.body, env)
                    except _Continue:
                        continue
            except _Break:
                pass
            return
        elem = ElemSym(f"∀{unparse(s.target)}∈{path_of(it)}", None, it)
        self.run_state.effects.append(("iter", s, it, elem))
        stored = {t.id for st in s.body for t in ast.walk(st) if isinstance(t, ast.Name) and isinstance(t.ctx, ast.Store)}
        loaded = {t.id for st in s.body for t in ast.walk(st) if isinstance(t, ast.Name) and isinstance(t.ctx, ast.Load)}
        for nme in sorted((stored & loaded) - {t.id for t in ast.walk(s.target) if isinstance(t, ast.Name)}):
            if nme in env and not isinstance(env[nme], Init):
                env[nme] = Carried(nme, None, env[nme])
        self.assign(s.target, elem, env)
        how = "end"
        sizes = {id(x): (x, len(x)) for x in env.values() if isinstance(x, (list, dict))}
        try:
            self.block(s.body, env)
        except _Continue:
            how = "continue"
        except _Break:
            how = "break"
        for x, n0 in sizes.values():
            if len(x) != n0:
                self.generic_lists.add(id(x))
                self._keep.append(x)
        self.run_state.effects.append(("endloop", s, dict(env), how))
        if self.havoc:
            for nme in self._written(s):
                if not isinstance(env.get(nme), (list, dict)):
                    env[nme] = Init(nme)

    # ---- calls
    def _kwt(self, kw):
        return tuple(sorted(kw.items(), key=lambda x: x[0]))

    def ev_Call(self, n, env):
        f = n.func
        if isinstance(f, ast.Name):
            nm = f.id
            tgt = env.get(nm)
            if isinstance(tgt, tuple) and tgt and tgt[0] == "closure" and self.opaque_closures and nm not in self.inline:
                args, kw = self._args(n, env)
                self.closures[nm] = tgt[1]
                ret = CallSym(f"{nm}({', '.join(path_of(a) for a in args)})", None, None, nm, tuple(args), self._kwt(kw))
                self.run_state.effects.append(("call", nm, None, args, kw, n, ret))
                return ret
            if nm in self._BUILTINS and nm not in env and nm not in self.watch:
                args, kw = self._args(n, env)
                args = tuple(self.concrete(a) for a in args)
                if not any(isinstance(a, Sym) for a in args) and not any(isinstance(v, Sym) for v in kw.values()):
                    try:
                        return self._native(nm, args, kw)
                    except (TypeError, ValueError):
                        pass
                if nm in ("list", "tuple") and len(args) == 1 and isinstance(args[0], (list, tuple)) and id(args[0]) not in self.generic_lists:
                    return list(args[0]) if nm == "list" else tuple(args[0])
                return CallSym(f"{nm}({', '.join(path_of(a) for a in args)})", None, None, nm, args, self._kwt(kw))
            return super().ev_Call(n, env)
        if isinstance(f, ast.Attribute):
            m = f.attr
            base = self.ev(f.value, env)
            if isinstance(base, tuple) and len(base) == 2 and base[0] == "class":
                cname = base[1].name
                args, kw = self._args(n, env)
                got = self.pm.find_method(cname, m)
                if m not in self.watch and m in self.inline and got is not None and (got.is_static or got.is_classmethod):
                    a = got.node.args
                    ps = [x.arg for x in list(a.posonlyargs) + list(a.args)]
                    if got.is_classmethod and ps:
                        ps = ps[1:]
                    bound = dict(zip(ps, args))
                    bound.update(kw)
                    return self.call_fi(got, bound)
                ret = CallSym(f"{cname}.{m}({', '.join(path_of(a) for a in args)})", None, Sym(cname), m, tuple(args), self._kwt(kw))
                if m in self.watch:
                    self.run_state.effects.append(("call", m, Sym(cname), args, kw, n, ret))
                return ret
            if isinstance(base, dict) and m == "get" and n.args and m not in self.watch:
                args, kw = self._args(n, env)
                k = self.concrete(args[0])
                dflt = args[1] if len(args) > 1 else None
                if isinstance(k, Sym) or has_sym(k):
                    kk = k.path if isinstance(k, Sym) else k
                    try:
                        if kk in base:
                            return base[kk]              # stored under this very key earlier on the path
                    except TypeError:
                        pass
                    if not base:
                        return dflt                      # an empty table: a certain miss
                    # membership of a symbolic key in a non-empty table is not known: both outcomes
                    if self.atom(f"{path_of(k)} in {{…{len(base)} keys}}", [True, False]):
                        return SubSym(f"{{…}}[{path_of(k)}]", None, Sym("{…}"), k)
                    return dflt
                try:
                    return base.get(k, dflt)
                except TypeError:
                    return Sym("?" + unparse(n)[:80])
            self._pre[id(f.value)] = base
            try:
                if m in self.watch:
                    return super().ev_Call(n, env)
                if isinstance(base, Sym):
                    if m in self.passthrough:
                        self._pre.pop(id(f.value), None)
                        self._args(n, env)
                        return base
                    if m not in self.inline and m not in ("copy", "model_copy", "clone") and m not in self.effect_calls:
                        self._pre.pop(id(f.value), None)
                        args, kw = self._args(n, env)
                        return self._callsym(base, m, args, kw)
                return super().ev_Call(n, env)
            finally:
                self._pre.pop(id(f.value), None)
        return super().ev_Call(n, env)

    def _native(self, nm, args, kw):
        if has_sym(list(args)) and nm not in ("len", "list", "tuple", "enumerate", "zip", "reversed"):
            raise TypeError("symbolic")
        if nm == "len":
            if isinstance(args[0], list) and id(args[0]) in self.generic_lists:
                raise TypeError("length of a list filled by a generic loop iteration is not known")
            return len(args[0])
        if nm in ("enumerate", "zip", "reversed", "list", "tuple", "sorted"):
            return list({"enumerate": enumerate, "zip": zip, "reversed": reversed, "list": list, "tuple": tuple, "sorted": sorted}[nm](*args, **{k: v for k, v in kw.items() if k != "strict"}))
        if nm in ("set", "frozenset"):
            return tuple(dict.fromkeys(args[0])) if args else ()
        if nm == "dict":
            return dict(*args, **kw)
        return {"max": max, "min": min, "sum": sum, "abs": abs, "round": round, "iter": iter}[nm](*args, **kw)


def whole(dt: TDT, fi, limit: int = 3000):
    """[(valuation, env_after, effects, outcome)] of the whole function body over symbolic parameters, every valuation of the consulted conditions"""
    return run_block(dt, fi.node.body, sym_env(fi), fi, limit=limit)


def closure_summary(dt_factory, fi, node, limit: int = 500):
    """[(valuation, returned term)] of a local closure evaluated once over symbolic parameters (free variables: the enclosing
    function's single-assignment temporaries, otherwise entry symbols); also returns the evaluator (for its comparison records)"""
    a = node.args
    ps = [x.arg for x in list(a.posonlyargs) + list(a.args) + list(a.kwonlyargs)]
    base = sym_env(fi, extra=ps)

    def env0():
        e = base()
        for p in ps:
            e[p] = Init(p)
        return e
    dt = dt_factory()
    pre = [s for s in temps_for(fi.node, node.body) if not any(isinstance(t, ast.Name) and t.id in ps for t in s.targets)]
    # sibling closures (summarised separately when called) and the literal containers the closures share (a memo `cache = {}` / `{None: ""}`
    # of the enclosing function: every evaluation starts from the literal of the source)
    from ..astmatch import assignments
    asg = assignments(fi.node)
    sibs = [s for s in walk_no_nested(fi.node) if isinstance(s, ast.FunctionDef) and s is not node and s is not fi.node]
    used = {t.id for b in [node] + sibs for t in ast.walk(b) if isinstance(t, ast.Name)}
    lits = []
    for nme in sorted(used):
        vals = asg.get(nme, [])
        if nme not in ps and len(vals) == 1 and isinstance(vals[0], (ast.Dict, ast.List, ast.Set)) and not any(isinstance(t, ast.Name) and t.id == nme for s_ in pre for t in s_.targets):
            st = ast.Assign(targets=[ast.Name(id=nme, ctx=ast.Store())], value=vals[0])
            ast.copy_location(st, vals[0])
            ast.fix_missing_locations(st)
            lits.append(st)
    leaves = run_block(dt, lits + pre + sibs + list(node.body), env0, fi, limit=limit)
    out = []
    for v, env, eff, outcome in leaves:
        ret = outcome[1] if isinstance(outcome, tuple) and outcome[0] == "return" else None
        out.append((v, ret, eff))
    return dt, ps, out

ABSTRACTION = (
    "Abstract evaluation of the syntax tree (tablecore.TDT, an extension of c05.LDT / sa/dtab.DT): the analysed function - or ONE generic iteration of a loop over a "
    "symbolic collection, from a symbolic entry state - is evaluated over symbolic inputs. Every parameter and every local on entry is an uninterpreted symbol standing for "
    "all values of its type (frames, attribute objects, width vectors, cursors, indices and table shapes are all symbolic); values are structured terms (attribute, "
    "subscript, slice, call, linear form, product/quotient, f-string, comprehension over a generic element); literals of the source are folded; whenever a condition has "
    "an undetermined truth value the evaluation forks, so ALL valuations of the consulted conditions are enumerated (no path sampled, no feasibility pruning, no solver). "
    "The verdict is read off the terms (which cell / attribute entry / width reaches which argument, linear forms of cursors and indices, provenance of frames) and holds "
    "for every value of the symbols. Nothing of the analysed package is imported, compiled or executed; no concrete table, page layout or attribute value is chosen.")


_OWN_RULES = ("R02.1", "R02.4", "R02.5", "R02.7", "R08.", "R09.2", "R09.3", "R09.4", "R09.6", "R09.7")


def is_opaque(*terms) -> bool:
    """some part of the terms is an expression the evaluator could not model (LDT names it `?<source text>`)"""
    return any(isinstance(p, Sym) and p.path.startswith("?") for t in terms for p in tparts(t))


def _install_opaque_guard(ctx: Ctx) -> None:
    """safety net for the rules of this module: a verdict whose evidence mentions an un-modelled expression (`?...`) is an analysis gap,
    never a violation - whatever the rule's own checks concluded"""
    import re
    if getattr(ctx, "_opaque_guard", False):
        return
    orig = ctx.violation
    pat = re.compile(r"(^|[\s`(\[,:={])\?[A-Za-z_(\[{'\"]")

    def violation(rule, construct, offending, where, msg, **detail):
        if rule.startswith(_OWN_RULES) and pat.search(f"{offending} {msg}"):
            ctx.gap(rule, "not decided - the evidence involves an expression the evaluator does not model: " + msg[:200])
            return
        return orig(rule, construct, offending, where, msg, **detail)
    ctx.violation = violation          # type: ignore[method-assign]
    ctx._opaque_guard = True           # type: ignore[attr-defined]


def declare(ctx: Ctx) -> None:
    """state the abstraction and its bounds once per run"""
    _install_opaque_guard(ctx)
    if ABSTRACTION in ctx.explanations:
        return
    ctx.explain(ABSTRACTION)
    ctx.assume("loops over a symbolic collection are evaluated for ONE generic iteration (the element is universally quantified; locals read and written in the body enter as "
               "arbitrary symbols whose value before the loop is checked separately: an inductive step); after such a loop (or a loop a rule abstracts) every local it re-binds is an arbitrary symbol again, while an accumulator list it appends to holds the generic element; "
               "loops over literal sequences of the source are unrolled; no fixpoint over several iterations is computed")
    ctx.assume("methods are not inlined unless a rule names them (static unit-conversion helpers); a local closure is evaluated once over symbolic parameters and its summary is "
               "composed with the arguments of each call; an expression the evaluator does not model becomes an opaque symbol named by its source text, and a rule that meets an "
               "opaque symbol where it needs structure reports an analysis gap, never a verdict")
    ctx.assume("conditions are independent atoms (all combinations enumerated, also infeasible ones); tables are cut off at 3000 evaluations (then: analysis gap)")
    ctx.assume("polars DataFrame.slice(offset, length) / df[a:b] / df.row(i) / df.shape / df.columns denote what their documentation says; DataFrame.fill_null(value) "
               "only fills columns whose dtype accepts the value")


def _cached(ctx: Ctx, key: str, make):
    store = ctx.__dict__.setdefault("_tablecore_cache", {})
    if key not in store:
        try:
            store[key] = make()
        except AnalysisError as e:
            store[key] = e
    return store[key]


def _all_params(fi) -> list[str]:
    a = fi.node.args
    return [x.arg for x in list(a.posonlyargs) + list(a.args)]


def _fmt(v: dict) -> str:
    return ", ".join(f"{k[:60]}={x}" for k, x in sorted(v.items()))


def _ret(outcome):
    return outcome[1] if isinstance(outcome, tuple) and outcome[0] == "return" else None


def _kwarg(e, name: str, pos: int | None = None, default=None):
    """argument of a recorded call effect by keyword or position"""
    if name in e[4]:
        return e[4][name]
    if pos is not None and pos < len(e[3]):
        return e[3][pos]
    return default


def _term_arg(c: CallSym, name: str, pos: int | None = None, default=None):
    for k, x in c.kw:
        if k == name:
            return x
    if pos is not None and pos < len(c.args):
        return c.args[pos]
    return default


def unwrap(v, names=("list", "tuple", "float", "copy", "deepcopy")):
    """peel conversions / copies that keep the value: list(x), tuple(x), float(x), copy(x), x.copy(), x[:]"""
    while True:
        if isinstance(v, CallSym) and v.recv is None and v.meth in names and len(v.args) == 1:
            v = v.args[0]
        elif isinstance(v, CallSym) and v.meth in ("copy", "clone") and not v.args and isinstance(v.recv, Sym):
            v = v.recv
        elif isinstance(v, SliceSym) and v.lo is None and v.hi is None:
            v = v.base
        else:
            return v


def frame_of_shape(v):
    """(frame term, axis) if the term is frame.shape[axis] / frame.height / frame.width / len(frame) / len(frame.columns)"""
    if isinstance(v, SubSym) and isinstance(v.base, AttrSym) and v.base.attr == "shape" and v.key in (0, 1):
        return v.base.base, v.key
    if isinstance(v, AttrSym) and v.attr in ("height", "width"):
        return v.base, 0 if v.attr == "height" else 1
    if isinstance(v, CallSym) and v.recv is None and v.meth == "len" and len(v.args) == 1:
        a = v.args[0]
        if isinstance(a, AttrSym) and a.attr == "columns":
            return a.base, 1
        if isinstance(a, Sym):
            return a, 0
    return None


def _enumerated(elem):
    """the enumerated collection X if the generic element runs over enumerate(X) (start 0), else None"""
    src = elem.source if isinstance(elem, ElemSym) else None
    if isinstance(src, CallSym) and src.recv is None and src.meth == "enumerate" and len(src.args) == 1 and dict(src.kw).get("start", 0) == 0:
        return src.args[0]
    return None


def loop_index_path(elem) -> str:
    """path of the index term of a generic loop: the loop variable of `for i in range(n)`, component 0 of `for i, x in enumerate(X)`"""
    return f"{elem.path}[0]" if _enumerated(elem) is not None else elem.path


def full_range(elem, frame_path: str | None, axis: int):
    """'ok' if the generic index `elem` runs over range(0, extent of the frame along axis) in ascending order (or enumerates the
    frame's rows / columns); else a description ('?...' = not recognised, otherwise positive evidence of a wrong range)"""
    if not isinstance(elem, ElemSym):
        return "?index is not a loop variable"
    src = elem.source
    X = _enumerated(elem)
    if X is not None:
        X = unwrap(X)
        if axis == 0 and isinstance(X, CallSym) and X.meth in ("rows", "iter_rows") and not X.args and (frame_path is None or path_of(X.recv) == frame_path):
            return "ok"
        if axis == 1 and isinstance(X, AttrSym) and X.attr == "columns" and (frame_path is None or path_of(X.base) == frame_path):
            return "ok"
        if axis == 1 and isinstance(X, CallSym) and X.meth == "row" and len(X.args) == 1 and (frame_path is None or path_of(X.recv) == frame_path):
            return "ok"                       # for j, value in enumerate(frame.row(i)): every column of row i, in order
        return f"?index enumerates `{path_of(X)[:50]}`"
    if not isinstance(src, RangeSym):
        return f"?index runs over `{path_of(src)[:60]}`"
    if src.lo != 0:
        lo = lin_of(src.lo)
        return f"range starts at {path_of(src.lo)}" if lo is not None and set(lo) <= {""} else f"?range starts at `{path_of(src.lo)[:40]}`"
    fs = frame_of_shape(src.hi)
    if fs is not None:
        if fs[1] != axis:
            return f"range ends at `{path_of(src.hi)[:50]}` (the other axis)"
        if frame_path is not None and path_of(fs[0]) != frame_path:
            return f"?range ends at the extent of `{path_of(fs[0])[:40]}`"
        return "ok"
    hi = lin_of(src.hi)
    if hi is not None and isinstance(src.hi, LinSym):
        for t in src.hi.terms:
            f2 = frame_of_shape(t)
            if f2 is not None and f2[1] == axis and hi.get(t.path) == 1 and set(hi) <= {t.path, ""}:
                return f"range ends at `{path_of(src.hi)[:50]}`, not at the extent of the frame"
    return f"?range ends at `{path_of(src.hi)[:50]}`"


def loop_spans(eff) -> list[dict]:
    """the outermost generically evaluated loops of one path: [{loop, it, elem, effects, end_env, how}]"""
    out, stack = [], []
    for e in eff:
        if e[0] == "iter" and len(e) > 3 and e[3] is not None:
            stack.append({"loop": e[1], "it": e[2], "elem": e[3], "effects": [], "end_env": None, "how": None})
            continue
        if e[0] == "endloop" and stack and stack[-1]["loop"] is e[1]:
            sp = stack.pop()
            sp["end_env"], sp["how"] = e[2], e[3]
            if stack:
                stack[-1]["effects"].append(("span", sp))
            else:
                out.append(sp)
            continue
        if stack:
            stack[-1]["effects"].append(e)
    return out


def _flat(sp) -> list:
    out = []
    for e in sp["effects"]:
        if e[0] == "span":
            out.extend(_flat(e[1]))
        else:
            out.append(e)
    return out


# ------------------------------------------------------------------ R02.1 cursor partition of _apply_data_post_processing
def _slice_parts(v):
    """(frame, offset, length linear form | None, description) of frame.slice(offset, length) / frame[lo:hi]"""
    if isinstance(v, CallSym) and v.meth == "slice":
        off = _term_arg(v, "offset", 0, 0)
        ln = _term_arg(v, "length", 1)
        return v.recv, off, (lin_of(ln) if ln is not None else None), ln
    if isinstance(v, SliceSym):
        lo = 0 if v.lo is None else v.lo
        if v.hi is None:
            return v.base, lo, None, None
        a, b = lin_of(v.hi), lin_of(lo)
        return v.base, lo, (lin_sub(a, b) if a is not None and b is not None else None), v.hi
    return None


_ROW_PRESERVING = {"enhance_group_by", "restore_page_context", "clone", "rechunk"}


def _heights_of_pages(t, p_pages: str) -> bool:
    """the term is the list of the pages' own row counts, in page order: [page.data.height for page in pages]"""
    t = unwrap(t, names=("list", "tuple"))
    if not (isinstance(t, CompSym) and t.kind == "list" and t.elt is not None and isinstance(t.source, Init) and t.source.path == p_pages):
        return False
    fs = frame_of_shape(t.elt)
    return fs is not None and fs[1] == 0 and isinstance(fs[0], AttrSym) and fs[0].attr == "data" and fs[0].base is t.var


def _prefix_sums_of_heights(t, p_pages: str):
    """'ok' if element k of the term is the sum of the first k page heights (the k-th page's first row), 'shifted' if it is the sum of the
    first k + 1 (the running total after the page), None if not recognised.  itertools.accumulate(xs, initial=0) / [0] + accumulate(xs)"""
    t = unwrap(t, names=("list", "tuple"))
    if isinstance(t, CallSym) and t.recv is None and t.meth == "accumulate" and len(t.args) == 1 and _heights_of_pages(t.args[0], p_pages):
        kw = dict(t.kw)
        if set(kw) - {"initial"}:
            return None
        if "initial" not in kw or kw["initial"] is None:
            return "shifted"
        return "ok" if isinstance(kw["initial"], _NUM) and not isinstance(kw["initial"], bool) and kw["initial"] == 0 else None
    if isinstance(t, OpSym) and t.op == "+" and isinstance(t.left, list) and len(t.left) == 1 and isinstance(t.left[0], _NUM) and t.left[0] == 0:
        r = unwrap(t.right, names=("list", "tuple"))
        if isinstance(r, SliceSym) and r.lo is None:
            r = unwrap(r.base, names=("list", "tuple"))
        return "ok" if _prefix_sums_of_heights(r, p_pages) == "shifted" else None
    return None


def _frame_leaves(t, depth: int = 0) -> list:
    """the frames a frame-valued term is derived from, following receivers and the frame arguments of the grouping service's row-preserving
    calls (index lists, column names and other non-frame arguments are not frames and are skipped); '?' marks an unknown step"""
    if depth > 8:
        return ["?"]
    if isinstance(t, (Init, AttrSym, SubSym, ElemSym)):
        return [t]
    if isinstance(t, CallSym) and t.meth in _ROW_PRESERVING:
        out = []
        if t.meth in ("clone", "rechunk"):
            return _frame_leaves(t.recv, depth + 1)
        for a in t.args:
            if isinstance(a, (Init, ElemSym)) or (isinstance(a, CallSym) and a.meth in _ROW_PRESERVING) or (isinstance(a, AttrSym) and a.attr == "data"):
                out.extend(_frame_leaves(a, depth + 1))
        return out or ["?"]
    return ["?"]


def cursor_post_processing(ctx: Ctx, rule: str) -> None:
    """_apply_data_post_processing: every page's data is re-cut from the column-reduced frame (with group_by: from the frame the
    grouping service derives from it) as consecutive slices of the pages' own heights.  One generic iteration of every loop that
    stores a page's data: page.data' = F.slice(c, h) with h = the page's own row count, c' = c + h, c = 0 before the loop,
    F = the reduced frame (parameter) or derived from it by the grouping service."""
    declare(ctx)
    ctx.assume("R02.1 (_apply_data_post_processing): grouping_service.enhance_group_by / restore_page_context return a frame with the same rows in the same order as the frame "
               "they are given (their cell values are C13's subject); a page's row count is page.data.height / len(page.data) / page.data.shape[0]")
    pm = ctx.pm
    fi = pm.func("UnifiedRTFEncoder._apply_data_post_processing")
    ps = _pos_params(fi)
    if len(ps) < 3:
        ctx.gap(rule, "_apply_data_post_processing: signature (self, pages, frame, body) not recognised")
        return
    p_pages, p_frame = ps[0], ps[1]
    try:
        dt = TDT(pm, watch={"slice", "head", "tail", "enhance_group_by", "restore_page_context"})
        leaves = whole(dt, fi)
        cover(ctx, "UnifiedRTFEncoder._apply_data_post_processing (whole body; one generic page per loop)", leaves)
    except AnalysisError as e:
        ctx.gap(rule, f"_apply_data_post_processing could not be evaluated: {e}")
        return
    seen = set()
    n_ok = 0
    for v, env, eff, out in leaves:
        n_loops = 0
        for sp in loop_spans(eff):
            lp, elem = sp["loop"], sp["elem"]
            stores = [e for e in _flat(sp) if e[0] == "store" and e[2] == "data" and any(x is elem for x in tparts(e[1]))]
            if not stores:
                continue
            n_loops += 1
            it = sp["it"]
            src = it.args[0] if isinstance(it, CallSym) and it.recv is None and it.meth == "enumerate" and it.args else it
            where = fi.where(lp)
            zargs = None
            if isinstance(src, CallSym) and src.recv is None and src.meth == "zip" and sum(1 for a in src.args if isinstance(a, Init) and a.path == p_pages) == 1:
                zargs = list(src.args)              # parallel sequences: component k of the generic element is element k of each
                src = next(a for a in zargs if isinstance(a, Init) and a.path == p_pages)
                ctx.assume("R02.1: zip(a, b, ...) pairs the k-th elements of its arguments; itertools.accumulate(xs, initial=0) yields 0, x0, x0+x1, ... (prefix sums, in order)")
            if not (isinstance(src, Init) and src.path == p_pages):
                if isinstance(src, CallSym) and src.recv is None and src.meth in ("reversed", "sorted"):
                    ctx.violation(rule, fi.short, "cursor re-slice: page order " + path_of(src)[:50], where, f"the pages are re-cut in the order `{path_of(src)[:60]}`, not in page order: the slices no longer follow the rows")
                else:
                    ctx.gap(rule, f"_apply_data_post_processing: a loop that stores page data iterates `{path_of(it)[:60]}`, not recognisably the pages in order")
                continue
            for e in stores:
                page, val = e[1], e[3]
                sl = _slice_parts(val)
                key = (getattr(lp, "lineno", 0), path_of(val))
                if sl is None:
                    ctx.gap(rule, f"_apply_data_post_processing: page data `{path_of(val)[:70]}` is not recognisable as a slice of a frame")
                    continue
                frame, off, ln, ln_term = sl
                page_data = f"{page.path}.data"

                def zip_source(t):
                    """the zipped sequence a component of the generic element comes from"""
                    if zargs is not None and isinstance(t, SubSym) and t.base is elem and isinstance(t.key, int) and 0 <= t.key < len(zargs):
                        return zargs[t.key]
                    return None
                if key not in seen:
                    seen.add(key)
                    ctx.instance(rule, where, f"cursor re-slice (generic page): data' = `{path_of(frame)[:60]}`[{path_of(off)[:30]} : +{path_of(ln_term)[:50]}]; "
                                 f"cursor' = {path_of(sp['end_env'].get(off.path)) if isinstance(off, Sym) else '?'}"[:280])
                ok = True
                # the slice length is the page's own height
                h = None
                for t in (ln_term.terms if isinstance(ln_term, LinSym) else (ln_term,)):
                    fs = frame_of_shape(t)
                    if fs is not None and fs[1] == 0 and path_of(fs[0]) == page_data:
                        h = t
                hz = zip_source(ln_term)
                if hz is not None and _heights_of_pages(hz, p_pages):
                    h = ln_term                         # element k of [page.data.height for page in pages], zipped with page k
                if ln is None:
                    ok = False
                    ctx.violation(rule, fi.short, "cursor re-slice: page heights changed", where, f"a page's data is re-cut as `{path_of(val)[:80]}`, an open-ended slice: every page gets all remaining rows")
                elif h is None or ln != {h.path: 1}:
                    ok = False
                    if h is not None or (set(ln) <= {""}):
                        ctx.violation(rule, fi.short, "cursor re-slice: page heights changed", where,
                                      f"a page's data is re-cut with length `{path_of(ln_term)[:60]}`, not the page's own row count: rows move from one page to another")
                    else:
                        ctx.gap(rule, f"_apply_data_post_processing: slice length `{path_of(ln_term)[:60]}` could not be related to the page's own row count")
                # the offset is a cursor carried through the loop, 0 before it, advanced by the page's height - or element k of the prefix sums of the heights
                oz = zip_source(off)
                if oz is not None:
                    kind = _prefix_sums_of_heights(oz, p_pages)
                    if kind == "shifted":
                        ok = False
                        ctx.violation(rule, fi.short, "cursor re-slice: cursor starts at the first page's height", where,
                                      f"page k is re-cut from offset `{path_of(oz)[:70]}`[k], the running total AFTER page k (no initial 0): every page gets the rows of the next one")
                    elif kind != "ok":
                        ok = False
                        ctx.gap(rule, f"_apply_data_post_processing: the sequence of slice offsets `{path_of(oz)[:70]}` is not recognisable as the prefix sums of the pages' heights")
                elif isinstance(off, Carried):
                    entry = off.entry
                    if not (isinstance(entry, _NUM) and not isinstance(entry, bool) and entry == 0):
                        ok = False
                        if isinstance(entry, _NUM):
                            ctx.violation(rule, fi.short, "cursor re-slice: cursor starts at " + str(entry), where, f"the slicing cursor `{off.path}` starts at {entry}, not at 0: the first rows are lost")
                        else:
                            ctx.gap(rule, f"_apply_data_post_processing: value `{path_of(entry)[:40]}` of the cursor `{off.path}` before the loop not decided")
                    after = lin_of(sp["end_env"].get(off.path))
                    if after is None:
                        ok = False
                        ctx.gap(rule, f"_apply_data_post_processing: value of the cursor `{off.path}` after one page is not a linear expression")
                    elif h is not None:
                        d = lin_sub(after, {off.path: 1})
                        if d != {h.path: 1}:
                            ok = False
                            ctx.violation(rule, fi.short, "cursor re-slice: cursor advanced by " + (path_of(sp["end_env"].get(off.path))[:60]), where,
                                          f"after a page of `{h.path}` rows the cursor `{off.path}` becomes `{path_of(sp['end_env'].get(off.path))[:70]}` (advance {d}): "
                                          "pages must be consecutive slices (cursor from 0, slice(cursor, page height), cursor advanced by the same height); "
                                          + ("rows are emitted more than once" if set(d) - {""} else "rows are lost or repeated"))
                elif isinstance(off, _NUM) and not isinstance(off, bool):
                    ok = False
                    ctx.violation(rule, fi.short, "cursor re-slice: fixed offset", where, f"every page is re-cut from the same offset `{path_of(off)[:40]}`")
                else:
                    ok = False
                    ctx.gap(rule, f"_apply_data_post_processing: slice offset `{path_of(off)[:50]}` is not a cursor carried through the page loop")
                # provenance of the frame
                lv = _frame_leaves(frame)
                from_pages = [x for x in lv if not isinstance(x, str) and (path_of(x) == page_data or (isinstance(x, AttrSym) and x.attr == "data" and p_pages in roots(x))
                                                                             or (isinstance(x, Init) and x.path == p_pages))]
                if isinstance(frame, Init) and frame.path == p_frame:
                    pass
                elif from_pages:
                    ok = False
                    ctx.violation(rule, fi.short, "slice sources " + path_of(frame)[:60], where, f"page data is re-cut from `{path_of(frame)[:80]}`, not from the column-reduced frame `{p_frame}`")
                elif "?" not in lv and lv and all(isinstance(x, Init) and x.path == p_frame for x in lv):
                    pass
                else:
                    ok = False
                    ctx.gap(rule, f"_apply_data_post_processing: page data comes from `{path_of(frame)[:70]}`, which could not be traced to the column-reduced frame")
                n_ok += ok
        if not n_loops:
            ctx.gap(rule, f"_apply_data_post_processing: on the path [{_fmt(v)}] no loop that re-cuts the pages' data was re-identified")
    if not n_ok and not any(f.rule == rule for f in ctx.findings) and not ctx.deferred_errors:
        ctx.gap(rule, "_apply_data_post_processing: no re-slicing loop could be verified")


# ------------------------------------------------------------------ R02.1 / R09.4 _render_body: segments, offsets, tail
def _int_solutions_le(atoms, bound: int = -1) -> bool | None:
    """is there an integer t <= bound satisfying every (a, k, op, truth) meaning  (a*t + k  op  0) == truth ?  None: not decided"""
    lo, hi = None, Fraction(bound)
    excluded, forced = [], None
    neg = {ast.Lt: ast.GtE, ast.LtE: ast.Gt, ast.Gt: ast.LtE, ast.GtE: ast.Lt, ast.Eq: ast.NotEq, ast.NotEq: ast.Eq}
    import math
    for a, k, op, truth in atoms:
        if not truth:
            op = neg[op]
        if a == 0:
            if not _cmp(op(), k, 0):
                return False
            continue
        t0 = Fraction(-k) / Fraction(a)
        if op in (ast.Eq,):
            forced = t0 if forced is None or forced == t0 else "none"
            continue
        if op is ast.NotEq:
            excluded.append(t0)
            continue
        less = (op in (ast.Lt, ast.LtE)) == (a > 0)          # t < t0 (or <=)
        strict = op in (ast.Lt, ast.Gt)
        if less:
            b = Fraction(math.ceil(t0) - 1) if strict else Fraction(math.floor(t0))
            hi = min(hi, b)
        else:
            b = Fraction(math.floor(t0) + 1) if strict else Fraction(math.ceil(t0))
            lo = b if lo is None else max(lo, b)
    if forced == "none":
        return False
    if forced is not None:
        return forced.denominator == 1 and forced <= hi and (lo is None or forced >= lo) and forced not in excluded
    if lo is not None and lo > hi:
        return False
    if lo is None:
        return True
    n = int(hi - lo) + 1
    return n > len([x for x in excluded if x.denominator == 1 and lo <= x <= hi])


def cursor_render_body(ctx: Ctx, rule: str) -> None:
    """_render_body hands every row of the page to TableAttributes._encode exactly once, in order, with row_offset = position of the
    segment's first row in the page and with the page's column widths.  The boundary iteration itself (segment = [cursor, boundary),
    cursor' = boundary on every path) is c05.r05_7's generic iteration; this rule reads the same evaluation for row_offset / widths /
    frame, and evaluates the rest of the function with the boundary loop abstracted (every local it writes becomes an arbitrary
    symbol): cursor = 0 before the loop, tail = [cursor, end) with row_offset = cursor emitted whenever rows remain, and the
    boundary-free path encodes the whole page with row_offset 0."""
    from .c05 import _body_analysis, _rel_row
    from .c05 import declare as declare05
    declare(ctx)
    declare05(ctx)
    ctx.assume("_render_body: after the abstracted boundary loop the row cursor is an arbitrary symbol, so the tail judgement (tail = [cursor, end) with row_offset = cursor, emitted "
               "whenever cursor < rows of the page) holds for every cursor value; that the cursor is the end of the last segment is the generic boundary iteration (R05.7)")
    pm = ctx.pm
    fi = pm.func("PageRenderer._render_body")
    ps = _pos_params(fi)
    if len(ps) < 2:
        ctx.gap(rule, "_render_body: signature (self, document, page) not recognised")
        return
    p_page = ps[1]
    page_data, page_widths = f"{p_page}.data", f"{p_page}.col_widths"
    a = _body_analysis(ctx)
    if isinstance(a, Exception) or "outer" not in a:
        ctx.gap(rule, f"_render_body: the boundary loop could not be evaluated ({a if isinstance(a, Exception) else a.get('gap')})")
        return
    lp, outer, dt0 = a["lp"], a["outer"], a["dt"]
    cands = {n for v, env, eff, out in outer for n, val in env.items() if n in dt0.reads and _rel_row(val)}
    if len(cands) != 1:
        ctx.gap(rule, f"_render_body: the row cursor of the boundary loop was not re-identified (candidates {sorted(cands)})")
        return
    cur = next(iter(cands))

    def judge_encode(e, lo_want, what: str, where: str) -> bool:
        """row_offset / widths of one _encode call whose segment starts at lo_want"""
        ok = True
        off = unwrap(_kwarg(e, "row_offset", 2, 0), names=("int",))
        w = _kwarg(e, "col_widths", 1)
        lo_want = unwrap(lo_want, names=("int",))
        if not _same(off, lo_want) and not (lin_of(off) is not None and lin_of(off) == lin_of(lo_want)):
            ok = False
            if isinstance(off, Sym) and not any(isinstance(p, Init) for p in tparts(off)) and not isinstance(off, (LinSym,)):
                ctx.gap(rule, f"_render_body: row_offset `{path_of(off)[:50]}` of {what} could not be evaluated")
            else:
                ctx.violation(rule, fi.short, f"_encode(rows from {path_of(lo_want)[:30]}, row_offset={path_of(off)[:40]})", where,
                              f"_render_body: {what} starting at row `{path_of(lo_want)[:40]}` of the page is encoded with row_offset=`{path_of(off)[:50]}`: its cells take the "
                              "attributes of other rows (row_offset must be the position of the segment's first row in the page)")
        if w is None:
            ok = False
            ctx.violation(rule, fi.short, "_encode widths missing", where, f"_render_body: {what} is encoded without the page's column widths")
        elif path_of(unwrap(w)) != page_widths:
            ok = False
            w0 = unwrap(w)
            if isinstance(w0, AttrSym) and not path_of(w0).startswith("?") and roots(w0) and w0.attr != "col_widths" or isinstance(w0, (list, tuple, int, float)):
                ctx.violation(rule, fi.short, "_encode widths " + path_of(w)[:50], where, f"_render_body: {what} is not encoded with the page's column widths `{page_widths}` but with `{path_of(w)[:60]}`")
            else:
                ctx.gap(rule, f"_render_body: the widths `{path_of(w)[:50]}` handed to _encode for {what} could not be traced to `{page_widths}`")
        return ok
    # (1) the generic boundary iteration: row_offset = the cursor the segment starts from, widths, frame
    n_seg = 0
    for v, env, eff, out in outer:
        for e in eff:
            if not (e[0] == "call" and e[1] == "_encode"):
                continue
            seg = e[3][0] if e[3] else _kwarg(e, "df")
            sl = _slice_parts(seg)
            if sl is None:
                continue                                      # r05_7 reports the gap
            n_seg += 1
            frame, lo = sl[0], sl[1]
            if path_of(frame) != page_data:
                if isinstance(frame, Sym) and (p_page in {p.path for p in tparts(frame) if isinstance(p, Init)}):
                    ctx.gap(rule, f"_render_body: a segment is cut from `{path_of(frame)[:50]}`, not recognisably the page's data `{page_data}`")
                else:
                    ctx.violation(rule, fi.short, "segment frame " + path_of(frame)[:50], fi.where(e[5]), f"_render_body: a body segment is cut from `{path_of(frame)[:60]}`, not from the page's data `{page_data}`")
            judge_encode(e, lo, "a segment before a boundary", fi.where(e[5]))
    ctx.instance(rule, fi.where(lp), f"one generic boundary iteration: {n_seg} segment emission(s); row_offset = the cursor `{cur}` the segment starts from; widths = {page_widths}")
    # (2) the rest of the function with the boundary loop abstracted
    try:
        dt = TDT(pm, watch={"_encode", "encode_spanning_row", "extend", "append", "slice", "tail"}, skip_loops=[lp], inline={"is_single_body"})
        leaves = whole(dt, fi)
        cover(ctx, "PageRenderer._render_body (whole body, boundary loop abstracted: locals it writes are arbitrary afterwards)", leaves)
    except AnalysisError as e:
        ctx.gap(rule, f"_render_body could not be evaluated: {e}")
        return
    n_tail = n_simple = n_loop_paths = 0
    lost_paths = []
    for v, env, eff, out in leaves:
        li = [i for i, e in enumerate(eff) if e[0] == "loop" and e[1] is lp]
        encs = [(i, e) for i, e in enumerate(eff) if e[0] == "call" and e[1] == "_encode"]
        if not li:
            # boundary-free path: the whole page, offset 0
            if not encs:
                if _ret(out) is not None or out == "fall":
                    ctx.gap(rule, f"_render_body: on the path [{_fmt(v)}] (no boundary loop) no _encode call was re-identified")
                continue
            for i, e in encs:
                n_simple += 1
                seg = unwrap(e[3][0] if e[3] else _kwarg(e, "df"), names=())
                if path_of(seg) != page_data:
                    sl = _slice_parts(seg)
                    if sl is not None and path_of(sl[0]) == page_data and (sl[1] != 0 or sl[2] is not None):
                        ctx.violation(rule, fi.short, "simple body " + path_of(seg)[:50], fi.where(e[5]), f"_render_body: a page without internal boundaries is rendered as `{path_of(seg)[:60]}`, not as the whole page data")
                    else:
                        ctx.gap(rule, f"_render_body: frame `{path_of(seg)[:50]}` rendered on the boundary-free path is not recognisably the page's data")
                    continue
                judge_encode(e, 0, "the whole page", fi.where(e[5]))
            continue
        n_loop_paths += 1
        snap = eff[li[0]][2]
        c0 = snap.get(cur)
        if not (isinstance(c0, _NUM) and not isinstance(c0, bool) and c0 == 0):
            if isinstance(c0, _NUM):
                ctx.violation(rule, fi.short, f"cursor starts at {c0}", fi.where(lp), f"_render_body: the row cursor `{cur}` is {c0} before the first boundary, not 0: the first rows of the page are not rendered")
            else:
                ctx.gap(rule, f"_render_body: value `{path_of(c0)[:40]}` of the row cursor `{cur}` before the boundary loop not decided")
        tails = [(i, e) for i, e in encs if i > li[0]]
        early = [(i, e) for i, e in encs if i < li[0]]
        for i, e in early:
            ctx.gap(rule, "_render_body: rows are encoded before the boundary loop on a path through it; their relation to the segments is not decided")
        cur_atoms = []
        undecided_guard = False
        for key, val in v.items():
            rec = dt.cmp.get(key)
            if rec is None or not any(isinstance(p, Init) and p.path == cur for x in (rec[1], rec[2]) for p in tparts(x)):
                continue
            if rec[0] not in (ast.Lt, ast.LtE, ast.Gt, ast.GtE, ast.Eq, ast.NotEq):
                undecided_guard = True
                continue
            l, r = rec[1], rec[2]
            la, ra = lin_of(l), lin_of(r)
            if la is None or ra is None:
                undecided_guard = True
                continue
            d = lin_sub(la, ra)
            terms = {}
            for x in (l, r):
                for t in (x.terms if isinstance(x, LinSym) else (x,)):
                    if isinstance(t, Sym):
                        terms[t.path] = t
            n_terms = [k for k in d if k not in ("", cur)]
            fs = frame_of_shape(terms[n_terms[0]]) if len(n_terms) == 1 and n_terms[0] in terms else None
            if fs is None or fs[1] != 0 or path_of(fs[0]) != page_data or d.get(cur, 0) != -d[n_terms[0]]:
                undecided_guard = True
                continue
            cur_atoms.append((d[cur], d.get("", 0), rec[0], val))          # a*(cur - n) + k  op 0
        if tails:
            for i, e in tails:
                n_tail += 1
                seg = e[3][0] if e[3] else _kwarg(e, "df")
                sl = _slice_parts(seg)
                if sl is None and isinstance(seg, CallSym) and seg.meth == "tail":
                    ctx.gap(rule, f"_render_body: the tail `{path_of(seg)[:50]}` is cut by a row count, its start could not be related to the cursor")
                    continue
                if sl is None or path_of(sl[0]) != page_data:
                    ctx.gap(rule, f"_render_body: rows `{path_of(seg)[:50]}` rendered after the boundary loop are not a slice of the page's data")
                    continue
                frame, lo, ln, ln_term = sl
                lo = unwrap(lo, names=("int",))
                if lin_of(lo) != {cur: 1}:
                    ctx.violation(rule, fi.short, "tail " + path_of(seg)[:60], fi.where(e[5]), f"_render_body: the rows after the last boundary are `{path_of(seg)[:70]}`; they must start at the cursor `{cur}`")
                    continue
                if ln is not None:
                    rest = lin_sub(ln, {})
                    want_ok = False
                    for t in (ln_term.terms if isinstance(ln_term, LinSym) else (ln_term,)):
                        fs = frame_of_shape(t)
                        if fs is not None and fs[1] == 0 and path_of(fs[0]) == page_data and rest == {t.path: 1, cur: -1}:
                            want_ok = True
                    if not want_ok:
                        ctx.violation(rule, fi.short, "tail " + path_of(seg)[:60], fi.where(e[5]), f"_render_body: the rows after the last boundary are `{path_of(seg)[:70]}`: they do not reach the end of the page")
                        continue
                judge_encode(e, lo, "the tail after the last boundary", fi.where(e[5]))
        elif cur_atoms and not undecided_guard:
            # not emitted: are there rows left under the consulted conditions?  t = cursor - rows of the page <= -1
            if _int_solutions_le(cur_atoms, -1):
                lost_paths.append(_fmt({k: x for k, x in v.items() if cur in k}))
    if n_loop_paths and not n_tail:
        from ..astmatch import resolve
        it = resolve(lp.iter, fi.node)
        if isinstance(it, ast.BoolOp) and isinstance(it.op, ast.Or):
            it = it.values[0]
        if unparse(it) == f"{p_page}.group_boundaries":
            ctx.violation(rule, fi.short, "segments: tail never rendered", fi.where(lp), "_render_body: the rows after the last boundary of a page are never rendered (no _encode of the page's data from the cursor after the boundary loop)")
        else:
            ctx.gap(rule, f"_render_body: no rendering of the rows after the last boundary was re-identified (the boundary loop iterates `{unparse(it)[:60]}`)")
    for p in sorted(set(lost_paths))[:2]:
        ctx.violation(rule, fi.short, "segments: tail dropped when " + p[:80], fi.where(lp),
                      f"_render_body: under [{p}] the rows after the last boundary are not rendered although rows remain (cursor < rows of the page): rows are lost")
    ctx.instance(rule, fi.where(), f"_render_body with the boundary loop abstracted: {len(leaves)} paths; cursor `{cur}` = 0 before the loop; tail [cursor:] with row_offset = cursor on {n_tail} "
                 f"path(s), emitted whenever rows remain; whole page with row_offset 0 on {n_simple} boundary-free path(s)")
    if not n_loop_paths:
        ctx.gap(rule, "_render_body: no path through the boundary loop was evaluated")
    if not n_simple:
        ctx.gap(rule, "_render_body: the boundary-free path (whole page, row_offset 0) was not re-identified")


# ------------------------------------------------------------------ the three model-building sites: generic cell / text / spanning row
MODEL_WATCH = {"Cell", "TextContent", "Row", "Border", "BroadcastValue", "iloc", "to_list", "calculate_lines", "_as_rtf", "append", "extend", "row", "rows", "iter_rows",
               "fill_null", "item"}
SITES = ("TableAttributes._encode", "TextAttributes._encode_text", "RTFEncodingService.encode_spanning_row")


@dataclass
class Lookup:
    """one attribute entry reaching a model field: entry [row][col] of `source`, read through `via`"""
    source: Any                 # the value looked into (self.text_font / getattr(obj, name) ...)
    attr: Any                   # attribute name (str), ('param', closure parameter) or None
    owner: Any                  # the object the attribute belongs to
    row: dict | None            # linear form of the row index
    col: dict | None
    via: str                    # 'iloc' | 'direct' | 'expanded'
    dim: Any = None             # dimension of the BroadcastValue
    row_term: Any = None
    col_term: Any = None


def _attr_source(v):
    """(owner, attribute name | ('param', p) | None) of the value an entry is taken from"""
    if isinstance(v, AttrSym):
        return v.base, v.attr
    if isinstance(v, CallSym) and v.recv is None and v.meth == "getattr" and len(v.args) >= 2:
        k = v.args[1]
        if isinstance(k, str):
            return v.args[0], k
        if isinstance(k, Init):
            return v.args[0], ("param", k.path)
        if isinstance(k, FmtSym) and all(isinstance(x, (str, Init)) for x in k.pieces):
            return v.args[0], ("fmt", k.pieces)             # f"border_{side}": resolved when the closure's parameters are bound
        return v.args[0], None
    return None, None


def _bind_name(name, binding: dict):
    """an attribute name that depends on closure parameters, with the parameters bound to the call's arguments: a str if fully determined"""
    if isinstance(name, tuple) and name[0] == "param":
        arg = binding.get(name[1])
        return arg if isinstance(arg, str) else (("param", arg.path) if isinstance(arg, Init) else None)
    if isinstance(name, tuple) and name[0] == "fmt":
        out = []
        for x in name[1]:
            v = x if isinstance(x, str) else binding.get(x.path)
            if not isinstance(v, str):
                return None
            out.append(v)
        return "".join(out)
    return name


def _mod_index(k, seq):
    """the index term i if k is `i % len(seq)` (seq compared by path), else None"""
    if isinstance(k, OpSym) and k.op == "%" and isinstance(k.right, CallSym) and k.right.recv is None and k.right.meth == "len" and k.right.args \
            and path_of(k.right.args[0]) == path_of(seq):
        return k.left
    return None


def _closure_binding(call: CallSym, site) -> dict:
    cdt, ps, dflt, rows = site["closures"][call.meth]
    binding = dict(dflt)
    binding.update(dict(zip(ps, call.args)))
    binding.update(dict(call.kw))
    return binding


def view_of(bv, site):
    """(BroadcastValue(...) construction term, binding of closure parameters | None) the receiver of an .iloc denotes: the construction
    itself, or a call of a local closure that returns it - possibly through a memo it keeps per key (`view = views.get(k); if view is None:
    view = BroadcastValue(...k...); views[k] = view; return view`): a memoised construction whose only closure parameter is the memo key
    is the construction, so the cached-view idiom is read as constructing the view each time"""
    if isinstance(bv, CallSym) and bv.meth == "BroadcastValue":
        return bv, None
    if site is None or not (isinstance(bv, CallSym) and bv.recv is None and bv.meth in site["closures"]):
        return None
    cdt, ps, dflt, rows = site["closures"][bv.meth]
    built = [r for _v, r, _e in rows if isinstance(r, CallSym) and r.meth == "BroadcastValue"]
    other = [r for _v, r, _e in rows if not (isinstance(r, CallSym) and r.meth == "BroadcastValue")]
    if not built or len({path_of(_term_arg(b, "value", 0)) + "|" + path_of(_term_arg(b, "dimension", 1)) for b in built}) != 1:
        return None
    if other:
        # the remaining paths must hand out what the memo holds, and the memo must be filled with the construction under a key that
        # is the only closure parameter the construction depends on
        keys = {path_of(e[2]) for _v, _r, eff in rows for e in eff if e[0] == "setitem" and isinstance(e[3], CallSym) and e[3].meth == "BroadcastValue"}
        used_params = {p_.path for p_ in tparts(built[0]) if isinstance(p_, Init) and p_.path in ps}
        if not keys or not used_params <= keys or any(any(isinstance(x, CallSym) and x.meth == "BroadcastValue" for x in tparts(r)) or r is None for r in other):
            return None
    return built[0], _closure_binding(bv, site)


def _resolve_name(name, binding):
    """an attribute name given by a closure parameter, seen from the caller of the closure"""
    if binding is not None and isinstance(name, tuple) and name[0] == "param":
        arg = binding.get(name[1])
        if isinstance(arg, str):
            return arg
        if isinstance(arg, Init):
            return ("param", arg.path)
        return None
    return name


def lookup_of(v, site=None) -> Lookup | None:
    """recognise an attribute lookup term"""
    if isinstance(v, CallSym) and v.meth == "iloc" and len(v.args) + len(v.kw) >= 2:
        got = view_of(v.recv, site)
        if got is not None:
            bv, inner = got
            src = _term_arg(bv, "value", 0)
            r = _term_arg(v, "row_index", 0)
            c = _term_arg(v, "column_index", 1)
            owner, name = _attr_source(src)
            return Lookup(src, _resolve_name(name, inner), owner, lin_of(r), lin_of(c), "iloc", _term_arg(bv, "dimension", 1), r, c)
    if isinstance(v, SubSym) and isinstance(v.base, SubSym):
        grid = v.base.base
        r = _mod_index(v.base.key, grid)
        c = _mod_index(v.key, v.base)
        if c is None and isinstance(v.key, OpSym) and v.key.op == "%" and isinstance(v.key.right, CallSym) and v.key.right.meth == "len" and v.key.right.args \
                and isinstance(v.key.right.args[0], SubSym) and path_of(v.key.right.args[0].base) == path_of(grid):
            c = v.key.left                                    # c % len(grid[0])
        if r is None or c is None:
            return None
        if isinstance(grid, CallSym) and grid.meth == "to_list" and isinstance(grid.recv, CallSym) and grid.recv.meth == "BroadcastValue":
            bv = grid.recv
            src = _term_arg(bv, "value", 0)
            owner, name = _attr_source(src)
            return Lookup(src, name, owner, lin_of(r), lin_of(c), "expanded", _term_arg(bv, "dimension", 1), r, c)
        owner, name = _attr_source(grid)
        if owner is not None:
            return Lookup(grid, name, owner, lin_of(r), lin_of(c), "direct", None, r, c)
    return None


def _bind_lin(d: dict | None, binding: dict) -> dict | None:
    """substitute closure parameters (by name) in a linear form by the linear forms of the call's arguments"""
    if d is None:
        return None
    out: dict = {}
    for t, c in d.items():
        sub = binding.get(t)
        if sub is None:
            out[t] = out.get(t, 0) + c
            continue
        lf = lin_of(sub)
        if lf is None:
            return None
        for t2, c2 in lf.items():
            out[t2] = out.get(t2, 0) + c * c2
    return {t: c for t, c in out.items() if c}


def site_analysis(ctx: Ctx, short: str):
    """evaluate one model-building function over symbolic inputs (local closures summarised once) ->
    {fi, dt, leaves, closures: {name: (dt, params, defaults, [(valuation, returned term)])}} or an AnalysisError"""
    def make():
        pm = ctx.pm
        fi = pm.func(short)
        dt = TDT(pm, watch=MODEL_WATCH)
        leaves = whole(dt, fi)
        cover(ctx, f"{short} (whole body over symbolic inputs; one generic row / cell)", leaves)
        closures = {}
        todo = dict(dt.closures)
        while todo:
            name, node = todo.popitem()
            if name in closures:
                continue
            cdt, ps, rows = closure_summary(lambda: TDT(pm, watch=MODEL_WATCH), fi, node)
            for n2, nd2 in cdt.closures.items():
                if n2 not in closures and n2 != name:
                    todo[n2] = nd2
            cover(ctx, f"{short}.<locals>.{name} (closure summary over symbolic parameters)", [(v, None) for v, _r, _e in rows])
            a = node.args
            dflt = {}
            names = [x.arg for x in list(a.posonlyargs) + list(a.args)]
            for p, d in zip(names[len(names) - len(a.defaults):], a.defaults):
                if isinstance(d, ast.Constant):
                    dflt[p] = d.value
            closures[name] = (cdt, ps, dflt, rows)
        return {"fi": fi, "dt": dt, "leaves": leaves, "closures": closures}
    return _cached(ctx, "site:" + short, make)


def lookups_of(v, site) -> tuple[list[Lookup], list[str]]:
    """(lookups the value may be, descriptions of alternatives that are not lookups) - a call of a summarised local closure is
    expanded path by path with its parameters bound to the call's arguments"""
    lk = lookup_of(v, site)
    if lk is not None:
        return [lk], []
    if isinstance(v, CallSym) and v.recv is None and v.meth in site["closures"]:
        cdt, ps, dflt, rows = site["closures"][v.meth]
        binding = _closure_binding(v, site)
        out, other = [], []
        for val, ret, _eff in rows:
            if ret is None or (isinstance(ret, Init) and ret.path in ps):
                other.append("default" if ret is not None else "None")        # value absent -> None / the caller's default
                continue
            lk = lookup_of(_unborder(ret), site)             # a helper may hand back the entry itself or the Border built from it
            if lk is None:
                other.append(path_of(ret)[:80])
                continue
            name = _bind_name(lk.attr, binding)
            name = name if isinstance(name, str) else None
            out.append(Lookup(lk.source, name, lk.owner, _bind_lin(lk.row, binding), _bind_lin(lk.col, binding), lk.via, lk.dim, lk.row_term, lk.col_term))
        return out, [o for o in other if o not in ("default", "None")]
    return [], [path_of(v)[:80]]


def _unborder(v):
    """Border(style=x) -> x"""
    if isinstance(v, CallSym) and v.meth == "Border":
        return _term_arg(v, "style", 0)
    return v


def _enclosing_loops(node, eff, fn) -> list[tuple]:
    """[(loop statement / comprehension, iterable, generic element)] of the generically evaluated loops and comprehensions that contain
    `node`, outermost first"""
    inside = [a for a in anc(node, fn) if isinstance(a, (ast.For, ast.ListComp, ast.GeneratorExp, ast.SetComp, ast.DictComp))]
    out = []
    for e in eff:
        if e[0] in ("iter", "comp") and len(e) > 3 and e[3] is not None and any(e[1] is a for a in inside) and not any(e[1] is x[0] for x in out):
            out.append((e[1], e[2], e[3]))
    out.sort(key=lambda x: len([a for a in anc(x[0], fn)]))
    return out


def cell_of(v):
    """(frame, column, row) if the term is one cell of a data frame (c05._cell, plus row tuples of `for i, row in enumerate(frame.rows())`)"""
    if isinstance(v, SubSym) and v.key == 1 and isinstance(v.base, ElemSym):
        X = _enumerated(v.base)
        X = unwrap(X) if X is not None else None
        if isinstance(X, CallSym) and X.meth == "row" and len(X.args) == 1:
            return X.recv, SubSym(f"{v.base.path}[0]", None, v.base, 0), X.args[0]          # for j, value in enumerate(frame.row(i))
    if isinstance(v, SubSym) and isinstance(v.base, SubSym):
        X = unwrap(v.base.base, names=("list", "tuple"))
        if isinstance(X, CallSym) and X.meth in ("rows", "iter_rows") and not X.args and isinstance(X.recv, Sym):
            return X.recv, v.key, v.base.key                    # frame.rows()[i][j]
    if isinstance(v, SubSym) and isinstance(v.base, SubSym) and v.base.key == 1 and isinstance(v.base.base, ElemSym):
        X = _enumerated(v.base.base)
        X = unwrap(X) if X is not None else None
        if isinstance(X, CallSym) and X.meth in ("rows", "iter_rows") and not X.args:
            return X.recv, v.key, SubSym(f"{v.base.base.path}[0]", None, v.base.base, 0)
        if X is not None:
            return None
    return _cell(v)


def generic_cells(ctx: Ctx):
    """the generic data cell(s) of TableAttributes._encode: [{v, cell, text, row, i, j, loops, ...}] per path, or an error string"""
    site = site_analysis(ctx, "TableAttributes._encode")
    if isinstance(site, Exception):
        return site, f"TableAttributes._encode could not be evaluated: {site}"
    fi, leaves = site["fi"], site["leaves"]
    out = []
    for v, env, eff, outcome in leaves:
        for e in eff:
            if e[0] == "call" and e[1] == "Cell":
                loops = _enclosing_loops(e[5], eff, fi.node)
                rows = [r for r in eff if r[0] == "call" and r[1] == "Row" and any(x is e[6] for x in tparts(_kwarg(r, "row_cells", 0)))]
                out.append({"v": v, "cell": e, "loops": loops, "rows": rows, "eff": eff, "ret": _ret(outcome), "text": _kwarg(e, "text", 0), "width": _kwarg(e, "width", 1)})
    return site, out


def _closure_text(ctx: Ctx, rule: str, fi, where: str, call: CallSym, site, p_df: str):
    """judge the display text `f(cell value)` computed by a local closure f from f's summary: on every path the result must be '' where the
    value was found to be null and str(value) where it was found not to be; a result read back from a table the closure fills with str(key)
    under the raw value as key is a memo keyed by ==/hash.  -> (cell value term, description) when the text is accounted for, else None"""
    cdt, ps, dflt, rows = site["closures"][call.meth]
    binding = _closure_binding(call, site)
    cells = [p_ for p_ in ps if cell_of(binding.get(p_)) is not None]
    if len(cells) != 1:
        ctx.gap(rule, f"_encode: the cell text `{path_of(call)[:70]}` is computed by a local helper whose argument is not recognisably one cell of the frame")
        return None
    p = cells[0]
    raw = binding[p]
    frame0 = cell_of(raw)[0]
    from_param = isinstance(frame0, Init) and frame0.path == p_df
    ok = True
    kinds = set()
    memo_writes = [e for _v, _r, eff in rows for e in eff if e[0] == "setitem" and isinstance(e[1], dict) and isinstance(e[2], Init) and e[2].path == p]
    for cv, ret, _eff in rows:
        null = None                                    # what this path established about `value is None`
        for key, val in cv.items():
            rec = cdt.cmp.get(key)
            if rec is None or not (isinstance(rec[1], Init) and rec[1].path == p):
                continue
            if rec[0] == "is None":
                null = val
            elif rec[0] in (ast.In, ast.NotIn) and isinstance(rec[2], dict) and None in rec[2]:
                inside = val if rec[0] is ast.In else not val
                if not inside:
                    null = False                       # not among the keys, one of which is None
        inner = ret
        if isinstance(inner, CallSym) and inner.recv is None and inner.meth == "str" and len(inner.args) == 1:
            inner = inner.args[0]
        if isinstance(ret, str):
            kinds.add(f"{ret!r} when null")
            if ret != "" and null:
                ok = False
                ctx.violation(rule, fi.short, f"cell source null shows {ret!r}", where, f"_encode: a null value is shown as {ret!r}, expected ''")
            elif not null:
                ok = False
                ctx.gap(rule, f"_encode: the constant cell text {ret!r} returned by `{call.meth}` could not be related to a null test of the cell value")
        elif isinstance(inner, Init) and inner.path == p:
            kinds.add("str(value)" if inner is not ret else "the value itself")
            if null is None:
                ok = False
                if from_param:
                    ctx.violation(rule, fi.short, "cell source: null shown as " + path_of(call)[:60], where,
                                  f"_encode: `{call.meth}` returns `{path_of(ret)[:40]}` on a path that never tests the value for null: a null value is rendered as the text 'None' (expected '')")
                else:
                    ctx.gap(rule, f"_encode: the cell text is read from the derived frame `{path_of(frame0)[:50]}` without a per-cell null test")
            elif null:
                ok = False
                ctx.violation(rule, fi.short, "cell source: null polarity", where, f"_encode: `{call.meth}` returns `{path_of(ret)[:40]}` exactly when the value IS null")
        elif isinstance(ret, SubSym) and isinstance(ret.key, Init) and ret.key.path == p and path_of(ret.base) == "{…}":
            # read back from a table indexed by the raw cell value
            stored = [path_of(e[3]) for e in memo_writes]
            if memo_writes and all(isinstance(e[3], CallSym) and e[3].recv is None and e[3].meth == "str" and e[3].args and isinstance(e[3].args[0], Init) and e[3].args[0].path == p for e in memo_writes):
                ok = False
                kinds.add("memo[value]")
                ctx.violation(rule, fi.short, "cell source: text memo keyed by the raw value", where,
                              f"_encode: `{call.meth}` serves a cell's text from a table it fills with str(value) under the raw value as key; dict keys identify values by ==/hash, "
                              "under which 1, 1.0 and True (0, 0.0 and False) are ONE key although their display texts differ: a cell is rendered with the text of an equal value of "
                              "another type met earlier (expected str(value) of the cell's own value; key by (type(value), value) or do not memoise)")
            elif not memo_writes:
                kinds.add("table[value]")
                if null is False:
                    ok = False
                    ctx.gap(rule, f"_encode: `{call.meth}` looks the cell text up in a literal table for a non-null value; the table's entries are not decided")
            else:
                ok = False
                ctx.gap(rule, f"_encode: `{call.meth}` reads the cell text from a table it fills with {stored[:2]}; whether the entry is the display text of the cell's own value is not decided")
        else:
            ok = False
            ctx.gap(rule, f"_encode: the result `{path_of(ret)[:60]}` of `{call.meth}` is not recognisable as the display text of the cell value")
    if not ok:
        return None
    return raw, f"{call.meth}(value) = " + " / ".join(sorted(kinds))


def _string_cast_violation(ctx: Ctx, rule: str, fi, where: str, frame, p_df: str) -> bool:
    """the frame a cell text is read from is the frame parameter converted with polars' cast to String: the text is then polars' rendering
    of the value, not Python's str(value) (positive evidence, reported); False if the frame is no such conversion"""
    casts = [x for x in tparts(frame) if isinstance(x, CallSym) and x.meth == "cast" and x.args
             and (path_of(x.args[0]).split(".")[-1] in ("String", "Utf8", "Categorical") or x.args[0] is str)]
    if casts and p_df in roots(frame) and isinstance(frame, CallSym) and frame.meth in ("select", "with_columns", "cast"):
        ctx.violation(rule, fi.short, "cell source: text from " + path_of(casts[0])[:60], where,
                      f"_encode: the text of cell (i, j) is read from `{path_of(frame)[:90]}`: the frame is converted with polars' `{path_of(casts[0])[:50]}`, whose text for booleans, floats, "
                      "dates and nested values differs from Python's str(value) (`true` vs `True`, ...); expected str() of the frame's own value, '' for null")
        return True
    return False


def encode_index_agreement(ctx: Ctx, rule: str) -> None:
    """TableAttributes._encode, one generic row i and one generic column j: the cell built for (i, j) shows df.row(i)[j] ('' for null,
    else str(value)) and ends at col_widths[j]; i runs over all rows and j over all columns of the frame in order; the row's cells
    are collected into one Row whose RTF is appended to the result."""
    declare(ctx)
    site, cells = generic_cells(ctx)
    if isinstance(cells, str):
        ctx.gap(rule, cells)
        return
    fi = site["fi"]
    ps = _pos_params(fi)
    if len(ps) < 2:
        ctx.gap(rule, "_encode: signature (self, df, col_widths, row_offset) not recognised")
        return
    p_df, p_w = ps[0], ps[1]
    if not cells:
        ctx.gap(rule, "_encode: no construction of a Cell was re-identified on any path")
        return
    n_ok = 0
    shown = set()
    for c in cells:
        v, e = c["v"], c["cell"]
        where = fi.where(e[5])
        if len(c["loops"]) != 2:
            ctx.gap(rule, f"_encode: the cell is built inside {len(c['loops'])} generic loops (row loop and column loop expected)")
            continue
        (lp_i, it_i, i), (lp_j, it_j, j) = c["loops"]
        ok = True
        # index ranges
        for elem, axis, what in ((i, 0, "rows"), (j, 1, "columns")):
            fr = full_range(elem, p_df, axis)
            if fr == "ok":
                continue
            ok = False
            if fr.startswith("?"):
                ctx.gap(rule, f"_encode: the loop over the {what} is not recognisable as range(number of {what} of `{p_df}`): {fr[1:]}")
            else:
                ctx.violation(rule, fi.short, f"cell/row emission: {what} {fr}"[:100], where, f"_encode does not build one {'table row per data row' if axis == 0 else 'cell per column'}: {fr}")
        # text
        tc = c["text"]
        txt = _term_arg(tc, "text", 0) if isinstance(tc, CallSym) and tc.meth == "TextContent" else None
        if txt is None and not (isinstance(tc, CallSym) and tc.meth == "TextContent" and any(k == "text" for k, _x in tc.kw)):
            ctx.gap(rule, f"_encode: the text of the generic cell `{path_of(tc)[:50]}` could not be determined")
            continue
        null_atoms = {k: (dtv, val) for k, val in v.items() for dtv in [site["dt"].cmp.get(k)] if dtv is not None and dtv[0] == "is None" and cell_of(dtv[1]) is not None}
        raw = None
        if isinstance(txt, CallSym) and txt.recv is None and txt.meth in site["closures"]:
            # the display text is computed by a local closure: its summary (every path) composed with the call's argument
            verdict = _closure_text(ctx, rule, fi, where, txt, site, p_df)
            if verdict is None:
                continue
            raw, shown_as = verdict
        elif isinstance(txt, str):
            hit = [(k, rec) for k, (rec, val) in null_atoms.items() if val]
            if txt == "" and hit:
                raw = hit[0][1][1]
                shown_as = "'' for a null value"
            else:
                ok = False
                if txt != "" and hit:
                    ctx.violation(rule, fi.short, f"cell source null shows {txt!r}", where, f"_encode: a null value is shown as {txt!r}, expected ''")
                else:
                    ctx.gap(rule, f"_encode: the constant cell text {txt!r} could not be related to a null test of the cell value")
                continue
        else:
            inner = txt
            if isinstance(inner, CallSym) and inner.recv is None and inner.meth == "str" and len(inner.args) == 1:
                inner = inner.args[0]
                shown_as = "str(value)"
            else:
                shown_as = "the value itself"
            raw = inner
            if cell_of(raw) is None:
                ok = False
                ctx.gap(rule, f"_encode: the cell text `{path_of(txt)[:70]}` is not recognisable as a cell of the frame")
                continue
            if _string_cast_violation(ctx, rule, fi, where, cell_of(raw)[0], p_df):
                continue
            tested = [val for k, (rec, val) in null_atoms.items() if path_of(rec[1]) == path_of(raw)]
            if not tested:
                frame0 = cell_of(raw)[0]
                ok = False
                f1 = frame0.recv if isinstance(frame0, CallSym) and frame0.meth == "fill_null" else frame0
                if not (isinstance(f1, Init) and f1.path == p_df):
                    ctx.gap(rule, f"_encode: the cell text `{path_of(txt)[:60]}` is read from the derived frame `{path_of(frame0)[:50]}` without a per-cell null test; whether that frame can hold nulls is not decided")
                elif isinstance(frame0, CallSym) and frame0.meth == "fill_null":
                    ctx.violation(rule, fi.short, "cell source: nulls resolved by " + path_of(frame0)[:60], where,
                                  f"_encode: cell text is `{path_of(txt)[:80]}` without a per-cell null test; `{path_of(frame0)[:60]}` only fills columns whose dtype accepts the fill value, "
                                  "so a null of a numeric/date/boolean column is rendered as the text 'None' (expected: null -> '', else str(value))")
                else:
                    ctx.violation(rule, fi.short, "cell source: null shown as " + path_of(txt)[:60], where,
                                  f"_encode: cell text is `{path_of(txt)[:80]}` on a path that never tests the value for null: a null value is rendered as the text 'None' (expected '')")
                continue
            if any(tested):
                ok = False
                ctx.violation(rule, fi.short, "cell source: null polarity", where, f"_encode: the cell shows `{path_of(txt)[:60]}` exactly when the value IS null")
                continue
        frame, col, row = cell_of(raw)
        key = (path_of(raw), shown_as)
        if key not in shown:
            shown.add(key)
            ctx.instance(rule, where, f"_encode generic cell (i, j): text = {shown_as} of `{path_of(raw)[:70]}`; width `{path_of(c['width'])[:50]}`")
        base_frame = frame
        while isinstance(base_frame, CallSym) and base_frame.meth in ("fill_null", "clone", "rechunk") and isinstance(base_frame.recv, Sym):
            base_frame = base_frame.recv
        if _string_cast_violation(ctx, rule, fi, where, frame, p_df):
            ok = False
        elif not (isinstance(base_frame, Init) and base_frame.path == p_df):
            ok = False
            ctx.gap(rule, f"_encode: the frame `{path_of(frame)[:60]}` the cell value is read from is not the frame parameter `{p_df}`")
        elif path_of(row) != loop_index_path(i) or path_of(col) != loop_index_path(j):
            ok = False
            li, lj = lin_of(row), lin_of(col)
            if li is not None and lj is not None and (isinstance(row, (Sym, int)) and isinstance(col, (Sym, int))):
                ctx.violation(rule, fi.short, f"cell source ({path_of(row)[:40]}, {path_of(col)[:40]})", where,
                              f"_encode: the cell built for row `{i.path}`, column `{j.path}` shows frame cell ({path_of(row)[:50]}, {path_of(col)[:50]}) (expected df.row(i)[j])")
            else:
                ctx.gap(rule, f"_encode: position ({path_of(row)[:40]}, {path_of(col)[:40]}) of the value shown in cell (i, j) could not be compared with (i, j)")
        # width
        w = c["width"]
        if not (isinstance(w, SubSym) and isinstance(w.base, Init) and w.base.path == p_w and path_of(w.key) == loop_index_path(j)):
            ok = False
            if isinstance(w, SubSym) and isinstance(w.base, Init) and w.base.path == p_w:
                ctx.violation(rule, fi.short, f"cell source width of column {path_of(w.key)[:40]}", where, f"_encode: cell (i, j) ends at `{path_of(w)[:60]}`, not at col_widths[j]")
            else:
                ctx.gap(rule, f"_encode: the width `{path_of(w)[:60]}` of the generic cell is not an entry of `{p_w}`")
        # one Row per data row, made of the row's cells, its RTF appended to the result
        rows = c["rows"]
        if len(rows) != 1:
            ok = False
            ctx.gap(rule, f"_encode: the generic cell reaches {len(rows)} Row(...) constructions (1 expected)")
        else:
            r = rows[0]
            cellsv = _kwarg(r, "row_cells", 0)
            r_loops = [x[0] for x in _enclosing_loops(r[5], c["eff"], fi.node)]
            if isinstance(cellsv, CompSym) and cellsv.elt is e[6] and cellsv.var is j:
                cellsv = [cellsv.elt]
            if not (isinstance(cellsv, list) and len(cellsv) == 1 and cellsv[0] is e[6]):
                ok = False
                ctx.gap(rule, f"_encode: row_cells `{path_of(cellsv)[:60]}` is not the list of the row's cells in column order")
            elif not (len(r_loops) == 1 and r_loops[0] is lp_i):
                ok = False
                ctx.gap(rule, "_encode: the Row is not built once per iteration of the row loop")
            else:
                ret = c["ret"]
                emitted = [x for x in (ret if isinstance(ret, list) else []) if isinstance(x, CallSym) and x.meth == "_as_rtf" and x.recv is r[6]]
                flat = [x for x in tparts(ret) if isinstance(x, CallSym) and x.meth == "_as_rtf" and x.recv is r[6]] if not emitted else emitted
                if not flat:
                    ok = False
                    ctx.gap(rule, f"_encode: the RTF of the generic row does not reach the result `{path_of(ret)[:60]}`")
                elif isinstance(ret, list) and len(ret) != 1:
                    ok = False
                    ctx.gap(rule, f"_encode: the result `{path_of(ret)[:80]}` holds more than the generic row's RTF")
        n_ok += ok
    if not n_ok and not any(f.rule == rule for f in ctx.findings) and not ctx.deferred_errors:
        ctx.gap(rule, "_encode: no path could be verified")


def cell_width_agreement(ctx: Ctx, rule: str) -> None:
    """R08.1(a): the right boundary of every cell that is built: col_widths[j] for the generic cell of TableAttributes._encode (data, header and
    footnote rows all go through it), the table width it is given for the single cell of encode_spanning_row"""
    declare(ctx)
    site, cells = generic_cells(ctx)
    enc = ctx.pm.func("TableAttributes._encode")
    if isinstance(cells, str):
        ctx.gap(rule, cells)
    else:
        ps = _pos_params(enc)
        p_w = ps[1] if len(ps) > 1 else None
        bad, n = [], 0
        for c in cells:
            w = c["width"]
            n += 1
            j = c["loops"][-1][2] if c["loops"] else None
            if isinstance(w, SubSym) and isinstance(w.base, Init) and w.base.path == p_w and j is not None and path_of(w.key) == loop_index_path(j):
                continue
            if isinstance(w, SubSym) and isinstance(w.base, Init) and w.base.path == p_w or isinstance(w, (int, float)):
                bad.append(path_of(w))
            else:
                ctx.gap(rule, f"TableAttributes._encode: width `{path_of(w)[:60]}` of the generic cell could not be related to `{p_w}`")
        ctx.instance(rule, enc.where(), f"TableAttributes._encode: Cell(width=col_widths[j]) for the generic cell (i, j) on {n} path(s): {not bad}")
        if not n:
            ctx.gap(rule, "TableAttributes._encode: no construction of a Cell was re-identified")
        if bad:
            ctx.violation(rule, enc.short, "Cell width " + bad[0][:80], enc.where(), f"{enc.short}: the right boundary of cell (i, j) is `{bad[0][:80]}`, not the cumulative column width col_widths[j]")
    sp = ctx.pm.func("RTFEncodingService.encode_spanning_row")
    site = site_analysis(ctx, sp.short)
    if isinstance(site, Exception):
        ctx.gap(rule, f"encode_spanning_row could not be evaluated: {site}")
        return
    names = [a.arg for a in sp.node.args.args]
    p_width = "page_width" if "page_width" in names else None
    n = 0
    for v, env, eff, outcome in site["leaves"]:
        cs = [e for e in eff if e[0] == "call" and e[1] == "Cell"]
        rs = [e for e in eff if e[0] == "call" and e[1] == "Row"]
        if not cs and not rs:
            continue
        n += 1
        ws = [_kwarg(e, "width", 1) for e in cs]
        rc = _kwarg(rs[0], "row_cells", 0) if len(rs) == 1 else None
        ctx.instance(rule, sp.where(), f"{sp.short}: Cell widths {[path_of(w)[:40] for w in ws]} for the table width parameter `{p_width}`")
        if p_width is None:
            ctx.gap(rule, "encode_spanning_row: the table width parameter (page_width) was not re-identified")
        elif not (len(cs) == 1 and isinstance(rc, list) and len(rc) == 1 and rc[0] is cs[0][6]):
            if len(cs) > 1 and isinstance(rc, list) and len(rc) == len(cs):
                ctx.violation(rule, sp.short, f"Cell width {[path_of(w)[:30] for w in ws]}"[:80], sp.where(), f"{sp.short}: the spanning row is not one cell ending at the table width (cells end at {[path_of(w)[:30] for w in ws]})")
            else:
                ctx.gap(rule, "encode_spanning_row: the cells of the spanning row could not be determined")
        elif not (isinstance(unwrap(ws[0]), Init) and unwrap(ws[0]).path == p_width):
            if isinstance(ws[0], (int, float)) or (isinstance(ws[0], (OpSym, LinSym)) and p_width in roots(ws[0])) or isinstance(ws[0], (AttrSym, SubSym)):
                ctx.violation(rule, sp.short, f"Cell width {path_of(ws[0])[:60]}", sp.where(), f"{sp.short}: the spanning row's single cell ends at `{path_of(ws[0])[:60]}`, not at the table width it was given")
            else:
                ctx.gap(rule, f"encode_spanning_row: cell width `{path_of(ws[0])[:50]}` could not be related to the table width parameter")
    if not n:
        ctx.gap(rule, "encode_spanning_row: no path building the spanning row was re-identified")


def site_models(ctx: Ctx, short: str):
    """[(model class, {field: term}, call effect, path valuation, loops)] for every TextContent / Cell / Row constructed at the site (all paths)"""
    site = site_analysis(ctx, short)
    if isinstance(site, Exception):
        return site, []
    out = []
    for v, env, eff, outcome in site["leaves"]:
        for e in eff:
            if e[0] == "call" and e[1] in ("TextContent", "Cell", "Row"):
                cls_fields = list(ctx.pm.all_fields(e[1])) if e[1] in ctx.pm.classes else []
                kw = dict(zip(cls_fields, e[3]))
                kw.update(e[4])
                out.append((e[1], kw, e, v, eff))
    return site, out


# ------------------------------------------------------------------ BroadcastValue.iloc / to_list
def broadcast_iloc(ctx: Ctx, rule: str) -> None:
    """BroadcastValue.iloc(r, c) returns value[r % len(value)][c % len(value[0])] (scalar -> every cell, row vector -> its column,
    matrix -> cell by cell): read off the returned term for symbolic value, r, c."""
    declare(ctx)
    pm = ctx.pm
    il = pm.func("BroadcastValue.iloc")
    ps = _pos_params(il)
    if len(ps) < 2:
        ctx.gap(rule, "BroadcastValue.iloc: signature (self, row_index, column_index) not recognised")
        return
    try:
        dt = TDT(pm)
        leaves = whole(dt, il)
        cover(ctx, "BroadcastValue.iloc (whole body over a symbolic block and symbolic indices)", leaves)
    except AnalysisError as e:
        ctx.gap(rule, f"BroadcastValue.iloc could not be evaluated: {e}")
        return
    n = 0
    for v, env, eff, outcome in leaves:
        ret = _ret(outcome)
        if ret is None:
            if not any(x for k, x in v.items() if k.endswith("value is None")):
                ctx.gap(rule, f"BroadcastValue.iloc: returns None on the path [{_fmt(v)}]")
            continue
        n += 1
        ok = False
        if isinstance(ret, SubSym) and isinstance(ret.base, SubSym):
            block = ret.base.base
            r = _mod_index(ret.base.key, block)
            ckey = ret.key
            c = None
            if isinstance(ckey, OpSym) and ckey.op == "%" and isinstance(ckey.right, CallSym) and ckey.right.meth == "len" and ckey.right.args:
                a0 = ckey.right.args[0]
                if isinstance(a0, SubSym) and path_of(a0.base) == path_of(block):
                    c = ckey.left
            ctx.instance(rule, il.where(), f"BroadcastValue.iloc returns `{path_of(ret)[:140]}`")
            if isinstance(block, AttrSym) and block.attr == "value" and r is not None and c is not None:
                if isinstance(r, Init) and r.path == ps[0] and isinstance(c, Init) and c.path == ps[1]:
                    ok = True
                elif isinstance(r, Init) and isinstance(c, Init) and r.path == ps[1] and c.path == ps[0]:
                    ctx.violation(rule, il.short, "modular rule", il.where(), f"BroadcastValue.iloc is no longer value[row % nrows][col % ncols]: it returns `{path_of(ret)[:120]}` (row and column index exchanged)")
                    continue
            if not ok and isinstance(block, AttrSym) and block.attr == "value":
                ks = [ret.base.key, ret.key]
                if all(isinstance(k, (Init, OpSym, LinSym, int)) for k in ks):
                    ctx.violation(rule, il.short, "modular rule", il.where(),
                                  f"BroadcastValue.iloc is no longer value[row % nrows][col % ncols] (scalar -> every cell, vector -> its column, matrix -> cell by cell): it returns `{path_of(ret)[:120]}`")
                    continue
        if not ok:
            ctx.gap(rule, f"BroadcastValue.iloc: the returned term `{path_of(ret)[:80]}` is not recognisable as value[r % R][c % C]")
    if not n:
        ctx.gap(rule, "BroadcastValue.iloc: no path returning an entry was evaluated")


@dataclass
class Grid:
    """abstract value of a list of rows built from the stored block V (R x C) by tiling and cutting:  entry (r, c) = V[r % R][c % C];
    nrows / ncols: ('R'|'C') | ('mul', x, count term) | ('min', x, bound term);  rowobj: 'stored' (the stored rows themselves), 'fresh'
    (a new list per row), 'tiled' (new lists, but repeated: rows k and k + period are the same object)"""
    nrows: Any
    ncols: Any
    rowobj: str


def _ceil_div(count, d, n) -> str:
    """classify a repeat count against ceil(d / n): 'ceil' | 'floor' | '?'   (count may be wrapped in max(1, .))"""
    c = count
    if isinstance(c, CallSym) and c.recv is None and c.meth == "max" and len(c.args) == 2:
        rest = [a for a in c.args if not (isinstance(a, int) and a <= 1)]
        if len(rest) == 1:
            c = rest[0]
    if isinstance(c, OpSym) and c.op == "//" and path_of(c.right) == path_of(n):
        num = lin_of(c.left)
        if num == {path_of(d): 1, path_of(n): 1, "": -1}:
            return "ceil"                 # (d + n - 1) // n
        if num == {path_of(d): 1}:
            return "floor"                # d // n
    if isinstance(c, LinSym) and len(c.lin) == 1 and c.lin[0][1] == -1 and len(c.terms) == 1 and isinstance(c.terms[0], OpSym) and c.terms[0].op == "//" \
            and path_of(c.terms[0].right) == path_of(n) and lin_of(c.terms[0].left) == {path_of(d): -1}:
        return "ceil"                     # -(-d // n)
    if isinstance(c, CallSym) and c.meth == "ceil" and c.args and isinstance(c.args[0], OpSym) and c.args[0].op == "/" \
            and path_of(c.args[0].left) == path_of(d) and path_of(c.args[0].right) == path_of(n):
        return "ceil"
    return "?"


def broadcast_expansion(ctx: Ctx, rule: str) -> None:
    """BroadcastValue.to_list tiles the stored block up to the requested shape: entry (r, c) of the result is value[r % R][c % C], the
    result has exactly the requested shape, and its rows are fresh lists (a later per-page border update writes single cells into
    them).  The returned term of every path (symbolic block V of symbolic size R x C, symbolic dimension (d0, d1)) is interpreted in a
    small list domain: V, [f(row) for row in G], G * n, G[:m], row * n, row[:m] -> (row count, column count, identity of the row
    objects); the repeat counts must reach ceil(d / size)."""
    declare(ctx)
    ctx.assume("BroadcastValue.to_list: Python list semantics (x * n repeats the same element objects, x[:m] and comprehensions build a new outer list, row * n / row[:m] / list(row) "
               "build a new row); block sizes R, C >= 1 (validated); paths on which `dimension is None` hand out the stored value unchanged and are not judged (every caller that "
               "writes into the result passes a dimension); a path condition that compares the block size with the dimension is used to decide the shape on that path")
    pm = ctx.pm
    fi = pm.func("BroadcastValue.to_list")
    try:
        dt = TDT(pm)
        leaves = whole(dt, fi)
        cover(ctx, "BroadcastValue.to_list (whole body over a symbolic block and a symbolic dimension)", leaves)
    except AnalysisError as e:
        ctx.gap(rule, f"BroadcastValue.to_list could not be evaluated: {e}")
        return

    def is_block(t) -> bool:
        return isinstance(t, AttrSym) and t.attr == "value" and isinstance(t.base, Init)

    def dim_axis(t):
        """0 / 1 if the term is dimension[0] / dimension[1]"""
        if isinstance(t, SubSym) and isinstance(t.base, AttrSym) and t.base.attr == "dimension" and t.key in (0, 1):
            return t.key
        return None

    def extent(t):
        """'R' / 'C' if the term is len(value) / len(value[0])"""
        if isinstance(t, CallSym) and t.recv is None and t.meth == "len" and len(t.args) == 1:
            a = t.args[0]
            if is_block(a):
                return "R"
            if isinstance(a, SubSym) and is_block(a.base):
                return "C"
        return None

    class NotGrid(Exception):
        pass

    def row_of(t, var, ncols):
        """column extent of a row expression over the generic row `var` (whose column extent is ncols); -> (ncols', fresh)"""
        if t is var:
            return ncols, False
        if isinstance(t, OpSym) and t.op == "*":
            inner, cnt = (t.left, t.right) if not isinstance(t.left, (int,)) else (t.right, t.left)
            nc, _fresh = row_of(inner, var, ncols)
            return ("mul", nc, cnt), True
        if isinstance(t, SliceSym) and t.lo in (None, 0) and t.hi is not None:
            nc, _fresh = row_of(t.base, var, ncols)
            return ("min", nc, t.hi), True
        if isinstance(t, CallSym) and t.recv is None and t.meth in ("list",) and len(t.args) == 1:
            nc, _fresh = row_of(t.args[0], var, ncols)
            return nc, True
        if isinstance(t, CallSym) and t.meth == "copy" and not t.args:
            nc, _fresh = row_of(t.recv, var, ncols)
            return nc, True
        raise NotGrid(f"row expression `{path_of(t)[:60]}`")

    def grid_of(t) -> Grid:
        if is_block(t):
            return Grid("R", "C", "stored")
        if isinstance(t, CompSym) and t.kind == "list" and t.elt is not None:
            g = grid_of(t.source)
            nc, fresh = row_of(t.elt, t.var, g.ncols)
            return Grid(g.nrows, nc, "fresh" if fresh else g.rowobj)
        if isinstance(t, OpSym) and t.op == "*":
            inner, cnt = (t.left, t.right) if not isinstance(t.left, int) else (t.right, t.left)
            g = grid_of(inner)
            return Grid(("mul", g.nrows, cnt), g.ncols, "tiled" if g.rowobj == "fresh" else g.rowobj)
        if isinstance(t, SliceSym) and t.lo in (None, 0) and t.hi is not None:
            g = grid_of(t.base)
            return Grid(("min", g.nrows, t.hi), g.ncols, g.rowobj)
        if isinstance(t, CallSym) and t.recv is None and t.meth == "list" and len(t.args) == 1:
            return grid_of(t.args[0])
        if isinstance(t, CallSym) and t.recv is None and t.meth == "deepcopy" and len(t.args) == 1:
            g = grid_of(t.args[0])
            return Grid(g.nrows, g.ncols, "fresh")
        raise NotGrid(f"`{path_of(t)[:70]}`")

    def judge_extent(x, axis: int, facts: set, problems: list, gaps: list):
        """the extent expression must be exactly dimension[axis]: min(size * repeats, dimension[axis]) with repeats >= ceil(dimension/size);
        facts: comparisons of this axis' block size with dimension[axis] that hold on the path ('==', '>=', '>')"""
        base = "R" if axis == 0 else "C"
        name = "row_repeats" if axis == 0 else "col_repeats"
        what = "rows" if axis == 0 else "columns"
        cut = None
        cur = x
        mults = []
        while isinstance(cur, tuple):
            if cur[0] == "min":
                if dim_axis(cur[2]) == axis:
                    cut = cur[2] if cut is None else cut
                elif dim_axis(cur[2]) is not None:
                    problems.append(("tiling/cut", f"the {what} are cut at `{path_of(cur[2])[:40]}` (the other axis of the dimension)"))
                    return
                else:
                    gaps.append(f"cut bound `{path_of(cur[2])[:40]}`")
                    return
            else:
                mults.append(cur[2])
            cur = cur[1]
        if cur != base:
            gaps.append(f"extent `{cur}`")
            return
        if not mults and ((cut is None and "==" in facts) or (cut is not None and facts & {"==", ">=", ">"})):
            return                                  # the path condition makes the block itself large enough
        found: list = []
        if cut is None:
            found.append(("tiling/cut", f"the result is not cut to dimension[{axis}] {what}: it has size * repeats {what}"))
        elif not mults:
            found.append((f"{name} too small", f"the block is not repeated along axis {axis} at all, so a block smaller than the table yields fewer than dimension[{axis}] {what}"))
        elif len(mults) > 1:
            gaps.append("several repetitions along one axis")
            return
        else:
            size = next((p for p in tparts(mults[0]) if extent(p) == base), None)
            d = next((p for p in tparts(mults[0]) if dim_axis(p) == axis), None)
            kind = _ceil_div(mults[0], d, size) if size is not None and d is not None else "?"
            if kind == "floor":
                found.append((f"{name} too small", f"the repeat count `{path_of(mults[0])[:70]}` is below ceil(dimension[{axis}] / size) when the block does not divide the table"))
            elif kind != "ceil":
                gaps.append(f"repeat count `{path_of(mults[0])[:60]}` could not be compared with ceil(dimension[{axis}] / size)")
                return
        if found and facts:
            gaps.append(f"shape along axis {axis} under the path condition (block size {sorted(facts)} dimension) not decided: {found[0][1][:80]}")
        else:
            problems.extend(found)

    def axis_facts(v: dict, axis: int) -> set:
        base = "R" if axis == 0 else "C"
        flip = {ast.Lt: ast.Gt, ast.Gt: ast.Lt, ast.LtE: ast.GtE, ast.GtE: ast.LtE, ast.Eq: ast.Eq, ast.NotEq: ast.NotEq}
        neg = {ast.Lt: ast.GtE, ast.GtE: ast.Lt, ast.Gt: ast.LtE, ast.LtE: ast.Gt, ast.Eq: ast.NotEq, ast.NotEq: ast.Eq}
        out = set()
        for key, val in v.items():
            rec = dt.cmp.get(key)
            if rec is None or rec[0] not in flip:
                continue
            op, l, r = rec
            if extent(r) == base and dim_axis(l) == axis:
                op, l, r = flip[op], r, l
            if not (extent(l) == base and dim_axis(r) == axis):
                continue
            if not val:
                op = neg[op]
            out.add(_OPS[op])
        return out

    n = 0
    problems: list = []
    for v, env, eff, outcome in leaves:
        ret = _ret(outcome)
        none_value = any(x for k, x in v.items() if k.endswith(".value is None"))
        none_dim = any(x for k, x in v.items() if k.endswith(".dimension is None"))
        if ret is None or none_value:
            continue
        if none_dim:
            continue                    # no shape requested: the stored value is handed out as it is (callers that write into the result pass a dimension)
        n += 1
        gaps: list = []
        try:
            g = grid_of(ret)
        except NotGrid as e:
            ctx.gap(rule, f"BroadcastValue.to_list: on the path [{_fmt(v)}] the result {e} is not built from the stored block by tiling (list * n, comprehension over the rows) and cutting ([:m])")
            continue
        here: list = []
        judge_extent(g.nrows, 0, axis_facts(v, 0), here, gaps)
        judge_extent(g.ncols, 1, axis_facts(v, 1), here, gaps)
        if g.rowobj == "stored":
            here.append(("aliased rows", "rows of the stored value itself are returned"))
        elif g.rowobj == "tiled":
            here.append(("aliased rows", "the same list object is returned for several rows (a list of rows repeated with `*` and only cut along the rows)"))
        ctx.instance(rule, fi.where(), f"BroadcastValue.to_list on the path [{_fmt(v)[:100]}]: result `{path_of(ret)[:110]}` -> rows {g.rowobj}; exact shape and entry (r, c) = value[r % R][c % C]: {not here and not gaps}")
        for x in gaps:
            ctx.gap(rule, f"BroadcastValue.to_list: {x} on the path [{_fmt(v)[:80]}]")
        problems.extend((k, m, _fmt(v)) for k, m in here)
    for name in ("row_repeats too small", "col_repeats too small"):
        lst = [p for p in problems if p[0] == name]
        if lst:
            ctx.violation(rule, fi.short, name, fi.where(),
                          f"BroadcastValue.to_list tiles the block too short: {lst[0][1]}; the repeat count must be ceil(dimension/block) = (dimension + block - 1) // block; "
                          "a block that does not divide the table is tiled too short and a later per-page border update indexes past the end (IndexError during rtf_encode)")
    lst = [p for p in problems if p[0] == "tiling/cut"]
    if lst:
        ctx.violation(rule, fi.short, "tiling/cut", fi.where(), "BroadcastValue.to_list no longer tiles the block (entry (r, c) = block[r % R][c % C]) and cuts the result to exactly dimension[0] x dimension[1]: " + lst[0][1])
    lst = [p for p in problems if p[0] == "aliased rows"]
    if lst:
        ctx.violation(rule, fi.short, "aliased rows", fi.where(), f"BroadcastValue.to_list returns rows that are shared list objects ({lst[0][1]}; path [{lst[0][2][:100]}]); writing one cell's border "
                      "into the expansion then changes other rows / the stored attribute, on every page")
    if not n:
        ctx.gap(rule, "BroadcastValue.to_list: no path returning an expansion was evaluated")


# ------------------------------------------------------------------ column removal (structural / dataflow)
def _removal_sets(fn) -> set[str]:
    """names of the collections that schedule the page_by / subline_by columns for removal (recognised by what is put into them)"""
    from ..astmatch import leaves
    out = set()
    for n in ast.walk(fn):
        if isinstance(n, ast.Call) and isinstance(n.func, ast.Attribute) and n.func.attr in ("update", "add", "extend", "append", "union") and isinstance(n.func.value, ast.Name) and n.args:
            if any(x.endswith((".page_by", ".subline_by")) for x in leaves(n.args[0])):
                out.add(n.func.value.id)
        elif isinstance(n, ast.AugAssign) and isinstance(n.target, ast.Name) and any(x.endswith((".page_by", ".subline_by")) for x in leaves(n.value)):
            out.add(n.target.id)
        elif isinstance(n, ast.Assign) and len(n.targets) == 1 and isinstance(n.targets[0], ast.Name) and isinstance(n.value, (ast.BinOp, ast.Call, ast.Set, ast.List, ast.SetComp, ast.ListComp)) \
                and any(x.endswith((".page_by", ".subline_by")) for x in leaves(n.value)) and not isinstance(n.value, ast.Call) or \
                (isinstance(n, ast.Assign) and len(n.targets) == 1 and isinstance(n.targets[0], ast.Name) and isinstance(n.value, ast.Call) and dotted(n.value.func) in ("set", "frozenset", "list", "tuple")
                 and any(x.endswith((".page_by", ".subline_by")) for x in leaves(n.value))):
            out.add(n.targets[0].id)
    return out or {"columns_to_remove"}


def _removal_table(ctx: Ctx, rule: str, fi, rm: set) -> None:
    """the statements of prepare_dataframe_for_body_encoding that build the set of removed columns, evaluated over a symbolic attributes object
    (a helper whose result IS the set is inlined): on every path the set holds subline_by iff it is set, and page_by iff it is set and shown as
    spanning rows (`not new_page or pageby_row != 'column'`); a path that does not consult a condition stands for both of its values"""
    import itertools
    declare(ctx)
    pm = ctx.pm
    fn = fi.node
    ps = _pos_params(fi)
    if len(ps) < 2:
        return
    p_attrs = ps[1]
    idx = next((i for i, st in enumerate(fn.body) if (isinstance(st, ast.If) and any(isinstance(x, ast.Name) and x.id in rm for x in ast.walk(st.test)))
                or any(isinstance(c, ast.Call) and isinstance(c.func, ast.Attribute) and c.func.attr in ("select", "drop") for c in ast.walk(st))), None)
    if idx is None:
        ctx.gap(rule, "prepare_dataframe_for_body_encoding: the statements that build the set of removed columns could not be delimited")
        return
    helpers = {c.func.attr for st in fn.body[:idx] for a in ast.walk(st) if isinstance(a, ast.Assign) and any(isinstance(t, ast.Name) and t.id in rm for t in a.targets)
               for c in ast.walk(a.value) if isinstance(c, ast.Call) and isinstance(c.func, ast.Attribute) and isinstance(c.func.value, ast.Name) and c.func.value.id in ("self", "cls")}
    adders = ("update", "add", "extend", "append", "union", "augBitOr", "augAdd")
    try:
        dt = TDT(pm, watch={"update", "add", "extend", "append", "union"}, inline=helpers)
        leaves = run_block(dt, fn.body[:idx], sym_env(fi), fi)
        cover(ctx, "prepare_dataframe_for_body_encoding (the statements that build the set of removed columns)", leaves)
    except AnalysisError as e:
        ctx.gap(rule, f"prepare_dataframe_for_body_encoding: the construction of the set of removed columns could not be evaluated: {e}")
        return

    def about(t, attr):
        return isinstance(t, AttrSym) and t.attr == attr and isinstance(t.base, Init) and t.base.path == p_attrs
    n = 0
    reported = set()
    for v, env, eff, outcome in leaves:
        terms = [env.get(nme) for nme in rm] + [a for e in eff if e[0] == "call" and e[1] in adders for a in e[3]]
        if is_opaque(*[t for t in terms if t is not None]):
            ctx.gap(rule, "prepare_dataframe_for_body_encoding: the set of removed columns involves an expression the evaluator does not model")
            continue
        got = {attr for attr in ("subline_by", "page_by") if any(about(x, attr) for t in terms for x in tparts(t))}
        known: dict = {}
        undecided = None
        for key, val in v.items():
            rec = dt.cmp.get(key)
            if rec is None:
                continue
            l, r = rec[1], rec[2]
            for attr, name in (("subline_by", "sub"), ("page_by", "pb")):
                if about(l, attr):
                    if rec[0] == "is None":
                        known[name] = not val
                    elif rec[0] == "truth":
                        known[name] = val
                    else:
                        undecided = key
            if about(l, "new_page"):
                if rec[0] == "truth":
                    known["np"] = val
                elif rec[0] in (ast.Eq, ast.Is) and isinstance(r, bool):
                    known["np"] = val if r else not val
                elif rec[0] in (ast.NotEq, ast.IsNot) and isinstance(r, bool):
                    known["np"] = (not val) if r else val
                else:
                    undecided = key
            if about(l, "pageby_row") or about(r, "pageby_row"):
                other = r if about(l, "pageby_row") else l
                if rec[0] in (ast.Eq, ast.NotEq) and other == "column":
                    known["col"] = val if rec[0] is ast.Eq else not val
                else:
                    undecided = key
        if undecided:
            ctx.gap(rule, f"prepare_dataframe_for_body_encoding: the condition `{undecided[:60]}` on the grouping settings has an unrecognised form")
            continue
        n += 1
        free = [k for k in ("sub", "pb", "np", "col") if k not in known]
        for combo in itertools.product([True, False], repeat=len(free)):
            w = dict(known)
            w.update(dict(zip(free, combo)))
            want = set()
            if w["sub"]:
                want.add("subline_by")
            if w["pb"] and (not w["np"] or not w["col"]):
                want.add("page_by")
            if got == want:
                continue
            setting = f"subline_by {'set' if w['sub'] else 'unset'}, page_by {'set' if w['pb'] else 'unset'}, new_page={w['np']}, pageby_row{'==' if w['col'] else '!='}'column'"
            for attr in sorted(want - got):
                if ("kept", attr) not in reported:
                    reported.add(("kept", attr))
                    ctx.violation(rule, fi.short, f"removal set: {attr} columns kept", fi.where(fn.body[max(idx - 1, 0)]),
                                  f"on the path [{_fmt(v)[:160]}] (which stands for: {setting}) the {attr} columns are NOT scheduled for removal although their values are shown "
                                  "outside the table (heading / spanning rows): they are rendered a second time as table cells")
            for attr in sorted(got - want):
                if ("removed", attr) not in reported:
                    reported.add(("removed", attr))
                    ctx.violation(rule, fi.short, f"removal set: {attr} columns removed", fi.where(fn.body[max(idx - 1, 0)]),
                                  f"on the path [{_fmt(v)[:160]}] (which stands for: {setting}) the {attr} columns are removed from the table although their values are not shown anywhere else: data is lost")
    ctx.instance(rule, fi.where(), f"set of removed columns: {n} path(s); holds subline_by iff set, page_by iff set and (not new_page or pageby_row != 'column'): {not reported}")


def column_removal(ctx: Ctx, rule: str) -> None:
    """prepare_dataframe_for_body_encoding: the displayed frame, the attribute matrices and col_rel_width must be cut at the positions
    the removed columns have in the ORIGINAL frame.  Structural / dataflow rule: constructs are recognised by role (tolerant of
    container type, temporaries, helper closures, comprehension vs loop) and their property-relevant attributes verified - the
    provenance of the positions (original vs shrinking frame), the polarity of the position filters, the order of in-place
    deletions, the column order of the displayed frame, the shape the attribute grid is expanded to, the deep copy of the
    attributes, the order of the returned triple; a construct that cannot be recognised is an analysis gap."""
    from ..astmatch import assignments, find, resolve, strip_wrappers
    pm = ctx.pm
    fi = pm.func("RTFEncodingService.prepare_dataframe_for_body_encoding")
    fn = fi.node
    asg = assignments(fn)
    params = [a.arg for a in fn.args.args]
    n_assign = {k: len(v) for k, v in asg.items()}
    rm = _removal_sets(fn)

    def mentions_rm(e: ast.AST) -> bool:
        return any(isinstance(x, ast.Name) and x.id in rm for x in ast.walk(e))

    def frame_kind(e: ast.AST, depth: int = 0) -> str:
        """'original' / 'shrinking' / '?' for an expression denoting a frame (or its column list)"""
        e = strip_wrappers(resolve(e, fn, _asg=asg))
        if isinstance(e, ast.Attribute) and e.attr == "columns":
            e = e.value
        if isinstance(e, ast.Call) and isinstance(e.func, ast.Attribute) and e.func.attr == "clone":
            e = e.func.value
        if isinstance(e, ast.Name) and depth < 8:
            if e.id in params and n_assign.get(e.id, 0) == 0:
                return "original"
            if n_assign.get(e.id, 0) > 1:
                return "shrinking"
            if n_assign.get(e.id, 0) == 1:
                return frame_kind(asg[e.id][0], depth + 1)
        return "?"

    # 0. which columns are scheduled for removal: decision table over (subline_by set, page_by set, new_page, pageby_row)
    if rule == "R02.5":                        # C02's clause "the columns consumed by page_by / subline_by are the only ones not rendered as cells"
        _removal_table(ctx, rule, fi, rm)

    # 1. positions of removed columns
    pos_sites = []
    for n, b in find("_X.index(_C)", fn) + find("_X.get_column_index(_C)", fn):
        pos_sites.append((n, b["_X"], "lookup"))
    for n in ast.walk(fn):
        if isinstance(n, (ast.ListComp, ast.SetComp, ast.GeneratorExp)) and len(n.generators) == 1:
            g = n.generators[0]
            if isinstance(g.iter, ast.Call) and dotted(g.iter.func) == "enumerate" and g.iter.args and isinstance(g.target, ast.Tuple) and len(g.target.elts) == 2 \
                    and isinstance(n.elt, ast.Name) and isinstance(g.target.elts[0], ast.Name) and n.elt.id == g.target.elts[0].id \
                    and any(mentions_rm(c) for c in g.ifs):
                pos_sites.append((n, g.iter.args[0], "enumerate"))
    kinds = []
    for n, x, how in pos_sites:
        k = frame_kind(x)
        kinds.append(k)
        ctx.instance(rule, fi.where(n), f"position of a removed column ({how}) taken from `{unparse(x)}` -> {k} frame")
        if k == "shrinking":
            ctx.violation(rule, fi.short, "removed_indices " + unparse(n)[:80], fi.where(n),
                          f"positions of removed columns are looked up in `{unparse(x)}`, a frame that is re-bound while columns are dropped; with two or more "
                          "removed columns later positions shift and the wrong width/attribute entries are cut")
    if not pos_sites or all(k == "?" for k in kinds):
        ctx.gap(rule, "prepare_dataframe_for_body_encoding: how the positions of the removed columns are computed could not be re-identified")

    # 2. cuts: filter by position, or in-place deletion
    cuts = 0
    for n in ast.walk(fn):
        if isinstance(n, (ast.ListComp, ast.GeneratorExp)) and len(n.generators) == 1:
            g = n.generators[0]
            if isinstance(g.iter, ast.Call) and dotted(g.iter.func) == "enumerate" and isinstance(g.target, ast.Tuple) and len(g.target.elts) == 2 and len(g.ifs) == 1:
                i_name = g.target.elts[0].id if isinstance(g.target.elts[0], ast.Name) else None
                t = g.ifs[0]
                if i_name and isinstance(t, ast.Compare) and len(t.ops) == 1 and isinstance(t.left, ast.Name) and t.left.id == i_name \
                        and isinstance(t.ops[0], (ast.In, ast.NotIn)) and not any(mentions_rm(c) for c in g.ifs):
                    item_ok = isinstance(n.elt, ast.Name) and isinstance(g.target.elts[1], ast.Name) and n.elt.id == g.target.elts[1].id
                    cuts += 1
                    ctx.instance(rule, fi.where(n), f"cut by position: `{unparse(n)[:90]}`")
                    if isinstance(t.ops[0], ast.In):
                        ctx.violation(rule, fi.short, "index filters " + unparse(n)[:80], fi.where(n), "the filter keeps the entries AT the removed positions instead of dropping them")
                    elif not item_ok:
                        ctx.violation(rule, fi.short, "index filters " + unparse(n)[:80], fi.where(n), "the filter does not keep the entry itself")
    for n in ast.walk(fn):
        tgt = None
        if isinstance(n, ast.Delete) and len(n.targets) == 1 and isinstance(n.targets[0], ast.Subscript):
            tgt = n.targets[0].slice
        elif isinstance(n, ast.Call) and isinstance(n.func, ast.Attribute) and n.func.attr == "pop" and len(n.args) == 1:
            tgt = n.args[0]
        if tgt is None or not isinstance(tgt, ast.Name):
            continue
        loop = next((a for a in anc(n, fn) if isinstance(a, ast.For) and isinstance(a.target, ast.Name) and a.target.id == tgt.id), None)
        if loop is None:
            continue
        cuts += 1
        it = loop.iter
        src = resolve(it, fn, _asg=asg)
        desc = "reverse=True" in unparse(src) or (isinstance(src, ast.Call) and dotted(src.func) == "reversed")
        if isinstance(it, ast.Name):
            desc = desc or any(isinstance(c, ast.Call) and isinstance(c.func, ast.Attribute) and c.func.attr == "sort" and isinstance(c.func.value, ast.Name)
                               and c.func.value.id == it.id and "reverse=True" in unparse(c) for c in ast.walk(fn))
        ctx.instance(rule, fi.where(n), f"in-place deletion at positions from `{unparse(it)}` (descending: {desc})")
        if not desc:
            ctx.violation(rule, fi.short, "index filters in-place " + unparse(n)[:60], fi.where(n),
                          f"entries are deleted in place at positions taken from `{unparse(it)}` which is not in descending order: every deletion shifts the later positions")
    if cuts < 2:
        ctx.gap(rule, f"prepare_dataframe_for_body_encoding: only {cuts} cut(s) by position recognised (attribute rows and col_rel_width expected)")

    # 3. the displayed frame keeps the remaining columns in frame order
    sels = [c for c in ast.walk(fn) if isinstance(c, ast.Call) and isinstance(c.func, ast.Attribute) and c.func.attr in ("select", "drop")]
    if not sels:
        ctx.gap(rule, "prepare_dataframe_for_body_encoding: the reduction of the displayed frame (select/drop) could not be re-identified")
    for c in sels:
        if c.func.attr != "select" or not c.args:
            continue
        arg = resolve(c.args[0], fn, _asg=asg)
        ctx.instance(rule, fi.where(c), f"displayed frame: `{unparse(c)[:60]}` with `{unparse(arg)[:90]}`")
        if isinstance(arg, (ast.ListComp, ast.GeneratorExp)) and len(arg.generators) == 1:
            g = arg.generators[0]
            src = strip_wrappers(resolve(g.iter, fn, _asg=asg), names=("list", "tuple", "iter"))
            cond = [unparse(x) for x in g.ifs]
            if not (isinstance(src, ast.Attribute) and src.attr == "columns"):
                if isinstance(src, ast.Call) and dotted(src.func) in ("sorted", "set", "frozenset", "reversed") or isinstance(src, (ast.Set, ast.SetComp, ast.BinOp)):
                    ctx.violation(rule, fi.short, "remaining columns " + unparse(arg)[:80], fi.where(c), "the displayed columns are not taken in the frame's own column order")
                else:
                    ctx.gap(rule, f"prepare_dataframe_for_body_encoding: column source `{unparse(src)[:60]}` of the displayed frame not recognised")
            t = g.ifs[0] if len(g.ifs) == 1 else None
            member = isinstance(t, ast.Compare) and len(t.ops) == 1 and isinstance(t.ops[0], (ast.In, ast.NotIn)) and isinstance(t.comparators[0], ast.Name) and t.comparators[0].id in rm \
                and isinstance(t.left, ast.Name) and isinstance(g.target, ast.Name) and t.left.id == g.target.id
            if member and isinstance(t.ops[0], ast.In):
                ctx.violation(rule, fi.short, "remaining columns " + unparse(arg)[:80], fi.where(c), "the displayed frame keeps exactly the columns that should be removed")
            elif not member:
                ctx.gap(rule, f"prepare_dataframe_for_body_encoding: filter `{cond}` of the displayed columns not recognised")
            if not (isinstance(arg.elt, ast.Name) and isinstance(g.target, ast.Name) and arg.elt.id == g.target.id):
                ctx.gap(rule, "prepare_dataframe_for_body_encoding: displayed-column comprehension does not yield the column itself")
        else:
            ctx.gap(rule, f"prepare_dataframe_for_body_encoding: argument `{unparse(arg)[:60]}` of select not recognised")

    # 4. attribute grid is expanded to the ORIGINAL shape
    exps = find("BroadcastValue(value=_V, dimension=_D)", fn)
    if not exps:
        ctx.gap(rule, "prepare_dataframe_for_body_encoding: expansion of list attributes to the full grid (BroadcastValue(...)) not re-identified")
    for n, b in exps:
        d = b["_D"]
        srcs = []
        if isinstance(d, ast.Tuple):
            for e in d.elts:
                if isinstance(e, ast.Name):
                    for a in walk_no_nested(fn):
                        if isinstance(a, ast.Assign) and isinstance(a.targets[0], (ast.Tuple, ast.List)) and any(isinstance(x, ast.Name) and x.id == e.id for x in a.targets[0].elts):
                            srcs.append(a.value)
                            break
                    else:
                        srcs.append(resolve(e, fn, _asg=asg))
                else:
                    srcs.append(resolve(e, fn, _asg=asg))
        else:
            srcs.append(resolve(d, fn, _asg=asg))
        ks = set()
        for sx in srcs:
            base = sx
            while isinstance(base, (ast.Subscript, ast.Attribute)) and not (isinstance(base, ast.Attribute) and base.attr in ("shape", "height", "width")):
                base = base.value
            if isinstance(base, ast.Attribute):
                ks.add(frame_kind(base.value))
            elif isinstance(base, ast.Call) and dotted(base.func) == "len" and base.args:
                ks.add(frame_kind(base.args[0]))
            else:
                ks.add("?")
        ctx.instance(rule, fi.where(n), f"attribute grid shape `{unparse(d)}` from {sorted(ks)} frame")
        d_res = resolve(d, fn, _asg=asg)
        const_dim = isinstance(d_res, ast.Constant) or (isinstance(d_res, ast.Tuple) and all(isinstance(e, ast.Constant) for e in d_res.elts))
        used_raw = isinstance(getattr(n, "_parent", None), ast.Attribute) and getattr(n, "_parent").attr == "value"
        if const_dim or used_raw:
            ctx.violation(rule, fi.short, "grid shape " + unparse(d), fi.where(n),
                          f"list attributes are not expanded to the original frame's rows x columns grid before columns are cut (`{unparse(getattr(n, '_parent', n))[:70]}`): "
                          "a vector that is recycled over the original columns is cut at positions that do not correspond to the removed columns")
        elif "shrinking" in ks:
            ctx.violation(rule, fi.short, "grid shape " + unparse(d), fi.where(n), "attributes are not expanded to the original frame's shape before columns are cut")
        elif ks != {"original"}:
            ctx.gap(rule, f"prepare_dataframe_for_body_encoding: source of the grid shape `{unparse(d)}` not recognised")

    # 5. cuts are applied to a deep copy of the caller's attributes
    stores = []
    for n in ast.walk(fn):
        if isinstance(n, ast.Call) and dotted(n.func) == "setattr" and n.args and isinstance(n.args[0], ast.Name):
            stores.append((n, n.args[0].id))
        elif isinstance(n, (ast.Assign, ast.AugAssign)):
            for t in (n.targets if isinstance(n, ast.Assign) else [n.target]):
                if isinstance(t, ast.Attribute) and isinstance(t.value, ast.Name) and t.value.id not in ("self",):
                    stores.append((n, t.value.id))
    if not stores:
        ctx.gap(rule, "prepare_dataframe_for_body_encoding: no store of a cut attribute recognised")
    for n, name in stores:
        vals = asg.get(name, [])

        def is_deep(v: ast.AST) -> bool:
            return isinstance(v, ast.Call) and (dotted(v.func).split(".")[-1] == "deepcopy" or (isinstance(v.func, ast.Attribute) and v.func.attr == "model_copy"
                                                 and any(k.arg == "deep" and isinstance(k.value, ast.Constant) and k.value.value is True for k in v.keywords)))

        def is_alias(v: ast.AST) -> bool:
            if isinstance(v, ast.Name) and v.id in params:
                return True
            if isinstance(v, ast.Call) and isinstance(v.func, ast.Attribute) and v.func.attr in ("model_copy", "copy") and not is_deep(v):
                return True
            return isinstance(v, ast.Call) and dotted(v.func) in ("copy.copy", "copy")
        deep = [v for v in vals if is_deep(v)]
        alias = [v for v in vals if is_alias(v)]
        ctx.instance(rule, fi.where(n), f"attribute store on `{name}` bound to {[unparse(v)[:50] for v in vals]}")
        if name in params or (alias and not deep):
            ctx.violation(rule, fi.short, "attrs copy", fi.where(n), f"attributes are cut in place on `{name}` (the caller's object or a shallow copy of it) instead of on a deep copy")
        elif not deep:
            ctx.gap(rule, f"prepare_dataframe_for_body_encoding: origin of `{name}` not recognised")

    # 6. result: (reduced frame, original frame, reduced attributes)
    rets = [r for r in walk_no_nested(fn) if isinstance(r, ast.Return)]
    for r in rets:
        v = r.value
        if not (isinstance(v, ast.Tuple) and len(v.elts) == 3):
            ctx.gap(rule, f"prepare_dataframe_for_body_encoding: `{unparse(r)[:60]}` is not a triple")
            continue
        k0, k1 = frame_kind(v.elts[0]), frame_kind(v.elts[1])
        ctx.instance(rule, fi.where(r), f"returns ({unparse(v.elts[0])}: {k0}, {unparse(v.elts[1])}: {k1}, {unparse(v.elts[2])})")
        if k0 == "original" and k1 == "shrinking":
            ctx.violation(rule, fi.short, "return", fi.where(r), "prepare_dataframe_for_body_encoding returns (original, reduced) instead of (reduced frame, original frame, attributes)")


# ------------------------------------------------------------------ _encode_body_section: widths, frames, page order
_SECTION_WATCH = {"prepare_dataframe_for_body_encoding", "paginate", "PaginationContext", "PageContext", "_apply_data_post_processing", "process", "render", "extend", "append",
                  "_col_widths", "calculate_additional_rows_per_page", "get"}


def body_section_analysis(ctx: Ctx):
    def make():
        pm = ctx.pm
        fi = pm.func("UnifiedRTFEncoder._encode_body_section")
        dt = TDT(pm, watch=_SECTION_WATCH, inline={"is_single_body"})
        leaves = whole(dt, fi)
        cover(ctx, "UnifiedRTFEncoder._encode_body_section (whole body over a symbolic document / frame / body; one generic page)", leaves)
        return {"fi": fi, "dt": dt, "leaves": leaves}
    return _cached(ctx, "body_section", make)


def _prep_component(v):
    """k if the term is component k of the (reduced frame, original frame, reduced attributes) triple returned by prepare_dataframe_for_body_encoding"""
    if isinstance(v, SubSym) and isinstance(v.base, CallSym) and v.base.meth == "prepare_dataframe_for_body_encoding" and v.key in (0, 1, 2):
        return v.key
    return None


def _classify_table_width(w, doc: str):
    """'ok' | ('bad', why) | '?' for the table width handed to Utils._col_widths: rtf_page.col_width of the document being encoded (the `8.5` / `or 8.5`
    fallbacks for an unset col_width are dead and accepted)"""
    page_w = f"{doc}.rtf_page.col_width"
    if isinstance(w, Sym) and w.path == page_w:
        return "ok"
    if isinstance(w, (int, float)) and not isinstance(w, bool):
        return "ok" if w == 8.5 else ("bad", f"the fixed width {w}")
    if isinstance(w, Sym):
        ps = {p.path for p in tparts(w) if isinstance(p, AttrSym)}
        foreign = sorted(p for p in ps if p.startswith(doc + ".rtf_page.") and p != page_w and not page_w.startswith(p))
        if foreign or (isinstance(w, (OpSym, LinSym)) and page_w in ps) or (isinstance(w, CallSym) and w.recv is None and w.meth in ("min", "max", "sum") and (page_w in ps or foreign)):
            return ("bad", f"`{path_of(w)[:100]}`")
    return "?"


def body_section_widths(ctx: Ctx, rule: str) -> None:
    """_encode_body_section: the column boundaries of the data rows are Utils._col_widths(relative widths of the DISPLAYED columns,
    rtf_page.col_width) and that result is what pagination and rendering receive.  Read off the symbolic evaluation of the function
    (every path); if the function cannot be evaluated the structural rule is applied instead."""
    declare(ctx)
    a = body_section_analysis(ctx)
    if isinstance(a, Exception):
        fi = ctx.pm.func("UnifiedRTFEncoder._encode_body_section")
        ctx.instance(rule, fi.where(), f"_encode_body_section not evaluable ({str(a)[:100]}): structural rule applied")
        _body_section_widths_structural(ctx, rule)
        return
    fi, leaves = a["fi"], a["leaves"]
    ps = _pos_params(fi)
    if len(ps) < 3:
        ctx.gap(rule, "_encode_body_section: signature (self, document, df, rtf_body) not recognised")
        return
    p_doc = ps[0]
    seen = set()
    n = 0
    for v, env, eff, outcome in leaves:
        calls = [e for e in eff if e[0] == "call" and e[1] == "_col_widths"]
        carriers = [e for e in eff if e[0] == "call" and e[1] in ("PaginationContext", "PageContext") and "col_widths" in e[4]]
        for e in carriers:
            passed = e[4]["col_widths"]
            if not (isinstance(passed, CallSym) and passed.meth == "_col_widths"):
                if ("passed", path_of(passed)) not in seen:
                    seen.add(("passed", path_of(passed)))
                    ctx.violation(rule, fi.short, "widths not passed", fi.where(e[5]), f"`col_widths={path_of(passed)[:80]}` handed to pagination/rendering is not the result of Utils._col_widths")
        if not calls:
            ctx.gap(rule, f"_encode_body_section: no call of Utils._col_widths on the path [{_fmt(v)[:100]}]")
            continue
        if not carriers:
            ctx.gap(rule, "_encode_body_section: the computed column widths are not seen being handed to pagination/rendering (col_widths=...)")
        for e in calls:
            rel, w = _kwarg(e, "rel_widths", 0), _kwarg(e, "col_width", 1)
            key = (path_of(rel), path_of(w))
            if key in seen:
                continue
            seen.add(key)
            n += 1
            ctx.instance(rule, fi.where(e[5]), f"_encode_body_section: Utils._col_widths(`{path_of(rel)[:90]}`, `{path_of(w)[:60]}`)")
            k = _classify_table_width(w, p_doc)
            if isinstance(k, tuple):
                ctx.violation(rule, fi.short, "table width " + path_of(w)[:80], fi.where(e[5]),
                              f"data rows are laid out in {k[1]} instead of the configured rtf_page.col_width that every other row uses")
            elif k == "?":
                ctx.gap(rule, f"_encode_body_section: table width `{path_of(w)[:80]}` could not be traced to rtf_page.col_width")
            # relative widths: the reduced attributes' col_rel_width, or ones for every displayed column
            good = False
            if isinstance(rel, AttrSym) and rel.attr == "col_rel_width":
                comp = _prep_component(rel.base)
                if comp == 2:
                    good = True
                elif (isinstance(rel.base, Init) and rel.base.path == ps[2]) or (isinstance(rel.base, AttrSym) and rel.base.attr == "rtf_body" and p_doc in roots(rel.base)):
                    ctx.violation(rule, fi.short, "relative widths " + path_of(rel)[:80], fi.where(e[5]),
                                  f"data column widths are computed from `{path_of(rel)[:100]}` (all columns of the table), not from the reduced (displayed) attributes returned by prepare_dataframe_for_body_encoding")
                    continue
            elif isinstance(rel, OpSym) and rel.op == "*":
                lst, cnt = (rel.left, rel.right) if isinstance(rel.left, list) else (rel.right, rel.left)
                fs = frame_of_shape(cnt)
                if isinstance(lst, list) and len(lst) == 1 and fs is not None and fs[1] == 1:
                    comp = _prep_component(fs[0])
                    if comp == 0:
                        good = True
                    elif comp == 1 or (isinstance(fs[0], Init) and fs[0].path == ps[1]):
                        ctx.violation(rule, fi.short, "relative widths " + path_of(rel)[:80], fi.where(e[5]),
                                      f"data column widths are computed from `{path_of(rel)[:100]}` (one per column of the ORIGINAL frame), not per displayed column")
                        continue
            if not good:
                ctx.gap(rule, f"_encode_body_section: relative widths `{path_of(rel)[:80]}` not recognised")
    if not n and not ctx.deferred_errors:
        ctx.gap(rule, "_encode_body_section: no column-width computation was re-identified")


def _body_section_widths_structural(ctx: Ctx, rule: str) -> None:
    """_encode_body_section: widths of the displayed columns come from the reduced attributes and the page's col_width.
    Temporaries and if/else arms are expanded; a width built from anything but rtf_page.col_width (with the 8.5
    default) is a violation, an expression that cannot be read is an analysis gap."""
    from ..astmatch import alternatives, leaves
    pm = ctx.pm
    fi = pm.func("UnifiedRTFEncoder._encode_body_section")
    fn = fi.node
    red_df = red_attrs = orig_df = None
    for a in walk_no_nested(fn):
        if isinstance(a, ast.Assign) and isinstance(a.targets[0], ast.Tuple) and len(a.targets[0].elts) == 3 and isinstance(a.value, ast.Call) \
                and dotted(a.value.func).endswith("prepare_dataframe_for_body_encoding") and all(isinstance(x, ast.Name) for x in a.targets[0].elts):
            red_df, orig_df, red_attrs = (x.id for x in a.targets[0].elts)
    calls = [c for c in walk_no_nested(fn) if isinstance(c, ast.Call) and dotted(c.func).endswith("_col_widths")]
    if not calls:
        ctx.gap(rule, "_encode_body_section: no call of Utils._col_widths recognised")
    for c in calls:
        if len(c.args) < 2:
            ctx.gap(rule, f"_encode_body_section: `{unparse(c)[:60]}` arguments not recognised")
            continue
        w_alts = alternatives(c.args[1], fn)
        any_page = any("document.rtf_page.col_width" in leaves(w) for w in w_alts)
        for w in w_alts:
            wt = unparse(w)
            lv = set(leaves(w))
            arith = any(isinstance(n, (ast.BinOp,)) for n in ast.walk(w))
            call = [dotted(n.func) for n in ast.walk(w) if isinstance(n, ast.Call)]
            ok = lv <= {"document.rtf_page.col_width", "8.5", "None"} and any_page and not arith and not call
            ctx.instance(rule, fi.where(c), f"_encode_body_section: table width `{wt[:100]}`")
            if ok:
                continue
            foreign = [x for x in lv if x.startswith("document.") and x != "document.rtf_page.col_width"]
            if foreign or arith or any(f in ("min", "max", "sum") for f in call):
                ctx.violation(rule, fi.short, "table width " + wt[:80], fi.where(c),
                              f"data rows are laid out in `{wt[:120]}` instead of the configured rtf_page.col_width that every other row uses")
            else:
                ctx.gap(rule, f"_encode_body_section: table width `{wt[:80]}` could not be traced to rtf_page.col_width")
        for r in alternatives(c.args[0], fn):
            rt = unparse(r)
            lv = leaves(r)
            ok = red_attrs is not None and (rt == f"{red_attrs}.col_rel_width" or (isinstance(r, ast.BinOp) and isinstance(r.op, ast.Mult)
                                                                                   and any(x.startswith(red_df + ".") or x == red_df for x in lv) and not any(x.endswith("col_rel_width") for x in lv)))
            ctx.instance(rule, fi.where(c), f"_encode_body_section: relative widths `{rt[:100]}`")
            if ok:
                continue
            if any(x.endswith("col_rel_width") and not (red_attrs and x.startswith(red_attrs + ".")) for x in lv) or any(orig_df and (x.startswith(orig_df + ".") or x == orig_df) or x.startswith("df.") for x in lv):
                ctx.violation(rule, fi.short, "relative widths " + rt[:80], fi.where(c), f"data column widths come from `{rt[:100]}`, not from the reduced (displayed) attributes/frame")
            else:
                ctx.gap(rule, f"_encode_body_section: relative widths `{rt[:80]}` not recognised")
    passed = [k for n in walk_no_nested(fn) if isinstance(n, ast.Call) for k in n.keywords if k.arg == "col_widths"]
    if not passed:
        ctx.gap(rule, "_encode_body_section: the computed column widths are not seen being handed to pagination/rendering (col_widths=...)")
    for k in passed:
        vals = {unparse(v) for v in alternatives(k.value, fn)}
        if not any("_col_widths(" in v for v in vals):
            ctx.violation(rule, fi.short, "widths not passed", fi.where(), f"`col_widths={unparse(k.value)}` handed to pagination/rendering is not the result of Utils._col_widths")


def body_section_order(ctx: Ctx, rule: str) -> None:
    """_encode_body_section: the section's own frame and body go to prepare_dataframe_for_body_encoding; pagination works on the original
    frame; page data is re-cut from the reduced frame; every page (one generic page of the pagination result, or the single
    fallback page holding the whole reduced frame) is processed and rendered once, in page order, and the chunks are concatenated
    in that order.  Read off the symbolic evaluation of the function (every path)."""
    declare(ctx)
    a = body_section_analysis(ctx)
    if isinstance(a, Exception):
        ctx.gap(rule, f"_encode_body_section could not be evaluated: {a}")
        return
    fi, leaves = a["fi"], a["leaves"]
    ps = _pos_params(fi)
    if len(ps) < 3:
        ctx.gap(rule, "_encode_body_section: signature (self, document, df, rtf_body) not recognised")
        return
    p_doc, p_df, p_body = ps[0], ps[1], ps[2]
    seen = set()

    def once(kind, key, *args):
        if (kind, key) in seen:
            return
        seen.add((kind, key))
        if kind == "v":
            ctx.violation(rule, *args)
        elif kind == "g":
            ctx.gap(rule, *args)
        else:
            ctx.instance(rule, *args)
    n_loop = n_fallback = n_post = 0
    for v, env, eff, outcome in leaves:
        prep = [e for e in eff if e[0] == "call" and e[1] == "prepare_dataframe_for_body_encoding"]
        if len(prep) != 1:
            once("g", "prep", f"_encode_body_section: {len(prep)} calls of prepare_dataframe_for_body_encoding on a path (1 expected)")
            continue
        pa = prep[0][3]
        if not (len(pa) >= 2 and isinstance(pa[0], Init) and pa[0].path == p_df and isinstance(pa[1], Init) and pa[1].path == p_body):
            once("v", "frames: prepare", fi.short, "frames: prepare", fi.where(prep[0][5]),
                 f"the section's own frame and body are not what prepare_dataframe_for_body_encoding receives: ({', '.join(path_of(x)[:40] for x in pa)})")
        ret = _ret(outcome)
        renders = [e for e in eff if e[0] == "call" and e[1] == "render"]
        spans = [sp for sp in loop_spans(eff) if any(x[0] == "call" and x[1] == "render" for x in _flat(sp))]
        pcs = [e for e in eff if e[0] == "call" and e[1] == "PaginationContext"]
        pag = [e for e in eff if e[0] == "call" and e[1] == "paginate"]
        post = [e for e in eff if e[0] == "call" and e[1] == "_apply_data_post_processing"]
        n_post += len(post)
        if spans:
            # the generic page of the pagination result
            sp = spans[0]
            n_loop += 1
            it = sp["it"]
            src = it.args[0] if isinstance(it, CallSym) and it.recv is None and it.meth == "enumerate" and it.args else it
            if not (isinstance(src, CallSym) and src.meth == "paginate"):
                if isinstance(src, CallSym) and src.recv is None and src.meth in ("reversed", "sorted"):
                    once("v", "page loop", fi.short, "page loop", fi.where(sp["loop"]), f"pages are not rendered in page order: the page loop iterates `{path_of(src)[:60]}`")
                else:
                    once("g", "loopsrc", f"_encode_body_section: the page loop iterates `{path_of(src)[:60]}`, not recognisably the pagination result in order")
                continue
            elem = sp["elem"]
            rs = [x for x in _flat(sp) if x[0] == "call" and x[1] == "render"]
            prs = [x for x in _flat(sp) if x[0] == "call" and x[1] == "process"]
            good = len(rs) == 1
            if good:
                pg = _kwarg(rs[0], "page", 1)
                if not any(x is elem for x in tparts(pg)):          # the page itself or the feature processor's result for it (borders are C07's subject)
                    good = False
                    once("v", "page loop", fi.short, "page loop", fi.where(rs[0][5]), f"the page loop does not render its own page: renderer.render receives `{path_of(pg)[:60]}`")
                acc = [x for x in _flat(sp) if x[0] == "call" and x[1] in ("extend", "append", "augAdd") and x[3] and any(y is rs[0][6] for y in tparts(x[3][0]))]
                if good and not acc:
                    good = False
                    once("g", "acc", "_encode_body_section: the rendered chunks of a page are not seen being appended to the section's result")
                elif good and not (isinstance(ret, list) and any(y is rs[0][6] for y in tparts(ret))):
                    good = False
                    once("g", "ret", f"_encode_body_section: the result `{path_of(ret)[:60]}` is not the accumulated chunks of the pages")
            else:
                once("g", "renders", f"_encode_body_section: {len(rs)} render calls in one iteration of the page loop (1 expected)")
            once("i", ("loop", good), fi.where(sp["loop"]), f"page loop over the pagination result in order: render(process(page)) appended once per generic page: {good}")
            for pc in pcs:
                if isinstance(pc[4].get("rtf_body"), Init) and pc[4]["rtf_body"].path == p_body:
                    k = _prep_component(pc[4].get("df"))
                    once("i", ("pcdf", k), fi.where(pc[5]), f"pagination of a single body works on component {k} of (reduced frame, original frame, attributes): `{path_of(pc[4].get('df'))[:70]}`")
                    if k == 0:
                        once("v", "frames", fi.short, "frames", fi.where(pc[5]), "pagination/rendering no longer use (original frame for grouping, reduced frame for display) consistently: "
                             f"PaginationContext.df = `{path_of(pc[4].get('df'))[:70]}` is the column-reduced frame (the grouping columns are gone)")
                    elif k != 1:
                        once("g", "pcdf?", f"_encode_body_section: PaginationContext.df = `{path_of(pc[4].get('df'))[:70]}` not recognised")
            for po in post:
                k = _prep_component(po[3][1]) if len(po[3]) >= 2 else None
                pages_ok = bool(po[3]) and ((isinstance(po[3][0], CallSym) and po[3][0].meth == "paginate") or isinstance(po[3][0], list))
                once("i", ("post", k, pages_ok), fi.where(po[5]), f"page data re-cut by _apply_data_post_processing({', '.join(path_of(x)[:50] for x in po[3])}) from component {k}")
                if k == 1:
                    once("v", "frames", fi.short, "frames", fi.where(po[5]), "pagination/rendering no longer use (original frame for grouping, reduced frame for display) consistently: "
                         f"_apply_data_post_processing re-cuts the pages from `{path_of(po[3][1])[:70]}`, the ORIGINAL frame (removed columns come back)")
                elif k != 0 or not pages_ok:
                    once("g", "post?", f"_encode_body_section: arguments of _apply_data_post_processing ({', '.join(path_of(x)[:40] for x in po[3])}) not recognised")
        elif renders:
            # fallback: one page holding the whole reduced frame
            n_fallback += 1
            pcx = [e for e in eff if e[0] == "call" and e[1] == "PageContext"]
            ok = len(renders) == 1 and len(pcx) == 1 and _prep_component(pcx[0][4].get("data")) == 0 and any(y is pcx[0][6] for y in tparts(_kwarg(renders[0], "page", 1)))
            once("i", ("fallback", ok), fi.where(), f"empty pagination result: the whole reduced frame rendered as one page: {ok}")
            if not ok:
                data = pcx[0][4].get("data") if pcx else None
                if len(renders) == 1 and len(pcx) == 1 and _prep_component(data) == 1:
                    once("v", "fallback", fi.short, "page loop: fallback page", fi.where(), f"when pagination yields no page the rendered page holds `{path_of(data)[:60]}`, not the whole displayed frame")
                else:
                    once("g", "fallback", "_encode_body_section: the fallback page for an empty pagination result was not re-identified")
        else:
            once("g", "norender", f"_encode_body_section: no page is rendered on the path [{_fmt(v)[:100]}]")
    if not n_loop:
        ctx.gap(rule, "_encode_body_section: no path through the page loop was evaluated")
    elif not n_post:
        ctx.violation(rule, fi.short, "frames", fi.where(), "pagination/rendering no longer use (original frame for grouping, reduced frame for display) consistently: "
                      "the pages' data is never re-cut from the column-reduced frame (_apply_data_post_processing is not called on any path)")


def _length_checked(fn, lp) -> bool:
    """an explicit `len(a) != len(b)` test (whose branch raises) on the two collections the section loop zips"""
    z = next((c for c in ast.walk(lp.iter) if isinstance(c, ast.Call) and dotted(c.func) == "zip" and len(c.args) == 2), None)
    if z is None:
        return False
    want = {unparse(a) for a in z.args}
    for t in walk_no_nested(fn):
        if isinstance(t, ast.If) and any(isinstance(x, ast.Raise) for s in t.body + t.orelse for x in ast.walk(s)):
            for c in ast.walk(t.test):
                if isinstance(c, ast.Compare) and len(c.ops) == 1 and isinstance(c.ops[0], (ast.NotEq, ast.Eq)):
                    sides = [c.left, c.comparators[0]]
                    if all(isinstance(x, ast.Call) and dotted(x.func) == "len" and x.args for x in sides) and {unparse(x.args[0]) for x in sides} == want:
                        return True
    return False


def section_loop(ctx: Ctx, rule: str) -> None:
    """_encode_multi_section: sections are encoded one by one in list order, each from its own frame and body (the pair the strict zip of
    document.df and document.rtf_body yields) against a per-section copy of the document carrying that frame and body, and the
    results are concatenated in that order.  One generic iteration of the section loop (only the statements the call of
    _encode_body_section depends on; the title/footnote visibility logic of the loop is not this rule's subject)."""
    from ..astmatch import guards
    declare(ctx)
    pm = ctx.pm
    fi = pm.func("UnifiedRTFEncoder._encode_multi_section")
    fn = fi.node
    ps = _pos_params(fi)
    if not ps:
        ctx.gap(rule, "_encode_multi_section: signature (self, document) not recognised")
        return
    p_doc = ps[0]
    calls = [c for c in walk_no_nested(fn) if isinstance(c, ast.Call) and dotted(c.func).split(".")[-1] == "_encode_body_section"]
    loops = [lp for lp in walk_no_nested(fn) if isinstance(lp, ast.For) and any(any(x is c for x in ast.walk(lp)) for c in calls)]
    loops = [lp for lp in loops if not any(m is not lp and any(x is lp for x in ast.walk(m)) for m in loops)]
    calls = [c for c in calls if loops and any(x is c for x in ast.walk(loops[0]))]
    if len(calls) != 1 or len(loops) != 1:
        ctx.gap(rule, f"_encode_multi_section: {len(calls)} call(s) of _encode_body_section in {len(loops)} loop(s) (one call in one section loop expected)")
        return
    call, lp = calls[0], loops[0]
    stmt = next((s for s in lp.body if any(x is call for x in ast.walk(s))), None)
    inner_guards = [g for g in guards(call, fn) if any(x is g[0] for s in lp.body for x in ast.walk(s))]
    if inner_guards:
        ctx.gap(rule, f"_encode_multi_section: the call of _encode_body_section is conditional inside the section loop (`{unparse(inner_guards[0][0])[:60]}`): whether a section can be skipped is not decided")
    names = {t.id for t in ast.walk(stmt) if isinstance(t, ast.Name) and isinstance(t.ctx, ast.Store)}
    after = [s for s in lp.body[lp.body.index(stmt) + 1:] if any(isinstance(t, ast.Name) and t.id in names for t in ast.walk(s))] if stmt in lp.body else []
    pre = temps_for(fn, [ast.Expr(value=lp.iter)])
    pre_names = {t.id for s_ in pre for t in s_.targets if isinstance(t, ast.Name)} | {t.id for t in ast.walk(lp.target) if isinstance(t, ast.Name)}
    inner = [s_ for s_ in temps_for(fn, [stmt] + after) if not any(isinstance(t, ast.Name) and t.id in pre_names for t in s_.targets)]
    header = ast.For(target=lp.target, iter=lp.iter, body=inner + [stmt] + after, orelse=[], lineno=lp.lineno, col_offset=0)
    try:
        dt = TDT(pm, watch={"_encode_body_section", "model_copy", "extend", "append"}, inline={"is_nested_header_list"}, havoc=False)
        leaves = run_block(dt, pre + [header], sym_env(fi), fi)
        cover(ctx, "UnifiedRTFEncoder._encode_multi_section (one generic section: loop header, the call of _encode_body_section and what it depends on)", leaves)
    except AnalysisError as e:
        ctx.gap(rule, f"_encode_multi_section: the section loop could not be evaluated: {e}")
        return
    seen = set()
    n_ok = 0
    ret_names = {x.id for r in walk_no_nested(fn) if isinstance(r, ast.Return) and r.value is not None for x in ast.walk(r.value) if isinstance(x, ast.Name)}
    from ..astmatch import assignments
    asg = assignments(fn)
    for _round in range(6):                     # names the returned value is built from, through temporaries
        more = {x.id for nme in ret_names for val in asg.get(nme, []) for x in ast.walk(val) if isinstance(x, ast.Name)} - ret_names
        if not more:
            break
        ret_names |= more
    for v, env, eff, outcome in leaves:
        sps = loop_spans(eff)
        if len(sps) != 1:
            continue                    # a literal one-section list of the source: unrolled, nothing generic to judge
        sp = sps[0]
        it, elem = sp["it"], sp["elem"]
        pair = elem
        z = it
        if isinstance(it, CallSym) and it.recv is None and it.meth == "enumerate" and it.args:
            z = it.args[0]
            pair = None
        z = unwrap(z, names=("list", "tuple"))
        key = path_of(z)
        es = [e for e in _flat(sp) if e[0] == "call" and e[1] == "_encode_body_section"]
        if len(es) != 1:
            continue
        e = es[0]
        args = list(e[3])
        ok = True
        if not (isinstance(z, CallSym) and z.recv is None and z.meth == "zip" and len(z.args) == 2):
            if isinstance(z, CallSym) and z.recv is None and z.meth in ("reversed", "sorted"):
                if key not in seen:
                    ctx.violation(rule, fi.short, "section loop", fi.where(lp), f"sections are not encoded in list order: the section loop iterates `{path_of(z)[:70]}`")
            elif key not in seen:
                ctx.gap(rule, f"_encode_multi_section: the section loop iterates `{path_of(z)[:70]}`, not recognisably zip(frames, bodies)")
            seen.add(key)
            continue
        strict = dict(z.kw).get("strict")
        frames, bodies = z.args
        f_doc = any(isinstance(p, AttrSym) and p.path == f"{p_doc}.df" for p in tparts(frames))
        b_doc = any(isinstance(p, AttrSym) and p.path == f"{p_doc}.rtf_body" for p in tparts(bodies))
        if key not in seen:
            seen.add(key)
            ctx.instance(rule, fi.where(lp), f"section loop over `{path_of(z)[:120]}`")
            if strict is not True and not _length_checked(fn, lp):
                ctx.violation(rule, fi.short, "section loop: unequal lists truncated", fi.where(lp),
                              f"the frames and bodies are paired with `{path_of(z)[:80]}` (no strict=True): with an unequal number of frames and bodies the extra sections are dropped silently")
            if not (f_doc and b_doc) and not (isinstance(frames, list) and not frames) and not (isinstance(bodies, list) and not bodies):
                sw = any(isinstance(p, AttrSym) and p.path == f"{p_doc}.rtf_body" for p in tparts(frames)) and any(isinstance(p, AttrSym) and p.path == f"{p_doc}.df" for p in tparts(bodies))
                if not sw:
                    ctx.gap(rule, f"_encode_multi_section: `{path_of(z)[:80]}` could not be traced to (document.df, document.rtf_body)")
        if not (f_doc and b_doc):
            continue
        # the call: (per-section document copy, the pair's frame, the pair's body)
        def comp(t):
            """0 / 1 if t is the frame / body of the generic pair"""
            if isinstance(t, SubSym) and t.key in (0, 1):
                if pair is not None and t.base is pair:
                    return t.key
                if pair is None and isinstance(t.base, SubSym) and t.base.base is elem and t.base.key == 1:
                    return t.key
            return None
        names_ = _pos_params(pm.func("UnifiedRTFEncoder._encode_body_section"))
        bound = dict(zip(names_, args))
        bound.update(e[4])
        d, f, b = (bound.get(names_[k]) if len(names_) > k else None for k in range(3))
        k2 = ("call", path_of(d)[:80], path_of(f), path_of(b))
        if k2 in seen:
            continue
        seen.add(k2)
        ctx.instance(rule, fi.where(call), f"generic section: _encode_body_section(`{path_of(d)[:60]}`, `{path_of(f)[:50]}`, `{path_of(b)[:50]}`)")
        if comp(f) != 0 or comp(b) != 1:
            ok = False
            if comp(f) is not None and comp(b) is not None or any(x is elem for x in tparts(f)) or any(x is elem for x in tparts(b)):
                ctx.violation(rule, fi.short, "section loop: frame/body", fi.where(call), f"a section is not encoded from its own frame and body: _encode_body_section receives (`{path_of(f)[:50]}`, `{path_of(b)[:50]}`)")
            else:
                ctx.violation(rule, fi.short, "section loop: frame/body", fi.where(call), f"a section is not encoded from the frame/body of the current iteration: _encode_body_section receives (`{path_of(f)[:50]}`, `{path_of(b)[:50]}`)")
        if isinstance(d, CallSym) and d.meth == "model_copy" and isinstance(d.recv, Init) and d.recv.path == p_doc:
            upd = dict(d.kw).get("update")
            if isinstance(upd, dict):
                if comp(upd.get("df")) != 0 or comp(upd.get("rtf_body")) != 1:
                    ok = False
                    ctx.violation(rule, fi.short, "section loop: frame/body", fi.where(call),
                                  f"the per-section document copy carries df=`{path_of(upd.get('df'))[:50]}`, rtf_body=`{path_of(upd.get('rtf_body'))[:50]}`, not the section's own frame and body")
            else:
                ok = False
                ctx.gap(rule, f"_encode_multi_section: the update of the per-section document copy `{path_of(upd)[:60]}` could not be read")
        elif isinstance(d, Init) and d.path == p_doc:
            ok = False
            ctx.violation(rule, fi.short, "section loop: frame/body", fi.where(call), "a section is encoded against the whole multi-section document, not a per-section copy carrying its own frame and body")
        else:
            ok = False
            ctx.gap(rule, f"_encode_multi_section: the document `{path_of(d)[:60]}` a section is encoded against is not recognisably a per-section copy of the document")
        acc = [x for x in _flat(sp) if x[0] == "call" and x[1] in ("extend", "append", "augAdd") and x[3] and any(y is e[6] for y in tparts(x[3][0])) and isinstance(x[2], (Init, list))]
        acc_names = {x[2].path for x in acc if isinstance(x[2], Init)}
        if not acc or (acc_names and not (acc_names & ret_names)):
            ok = False
            ctx.gap(rule, "_encode_multi_section: the encoded section is not seen being appended to the content that is returned")
        n_ok += ok
    if not n_ok and not any(f.rule == rule for f in ctx.findings) and not ctx.deferred_errors:
        ctx.gap(rule, "_encode_multi_section: the section loop could not be verified")
