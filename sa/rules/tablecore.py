"""Rules over the table pipeline shared by C02, C03, C08 and C09 (slicing cursors, index agreement,
column removal, width provenance, attribute binding)."""
from __future__ import annotations

import ast

from ..linform import linform, single_assign_env
from ..pm import AnalysisError, dotted, unparse, walk_no_nested
from ..report import Ctx


def anc(n, stop):
    p = getattr(n, "_parent", None)
    while p is not None and p is not stop:
        yield p
        p = getattr(p, "_parent", None)


# ------------------------------------------------------------------ cursor partitions
def cursor_post_processing(ctx: Ctx, rule: str) -> None:
    """_apply_data_post_processing: pages re-sliced from the reduced frame by a cursor"""
    pm = ctx.pm
    fi = pm.func("UnifiedRTFEncoder._apply_data_post_processing")
    loops = sorted((n for n in walk_no_nested(fi.node) if isinstance(n, ast.For) and unparse(n.iter) == "pages"), key=lambda n: n.lineno)
    n_ok = 0
    for lp in loops:
        pv = lp.target.id if isinstance(lp.target, ast.Name) else "?"
        slices = [c for c in ast.walk(lp) if isinstance(c, ast.Call) and isinstance(c.func, ast.Attribute) and c.func.attr == "slice"]
        if not slices:
            continue
        sl = slices[0]
        env = {unparse(a.targets[0]): a.value for a in ast.walk(lp) if isinstance(a, ast.Assign) and len(a.targets) == 1 and isinstance(a.targets[0], ast.Name)}
        cur = unparse(sl.args[0]) if sl.args else "?"
        length = sl.args[1] if len(sl.args) > 1 else None
        while isinstance(length, ast.Name) and length.id in env:
            length = env[length.id]
        aug = [a for a in ast.walk(lp) if isinstance(a, ast.AugAssign) and unparse(a.target) == cur and isinstance(a.op, ast.Add)]
        inc = aug[0].value if aug else None
        while isinstance(inc, ast.Name) and inc.id in env:
            inc = env[inc.id]
        store = [a for a in ast.walk(lp) if isinstance(a, ast.Assign) and unparse(a.targets[0]) == f"{pv}.data" and any(x is sl for x in ast.walk(a.value))]
        # initialisation to 0 before the loop
        init = [a for a in walk_no_nested(fi.node) if isinstance(a, ast.Assign) and unparse(a.targets[0]) == cur and a.lineno < lp.lineno]
        init_ok = bool(init) and unparse(init[-1].value) == "0"
        len_txt, inc_txt = unparse(length), unparse(inc)
        ok = len_txt == f"{pv}.data.height" and inc_txt == len_txt and len(aug) == 1 and store and init_ok and \
            not any(isinstance(x, (ast.If, ast.Continue, ast.Break)) for s in lp.body for x in ast.walk(s))
        order_ok = False
        if store and aug:
            order_ok = store[0].lineno < aug[0].lineno
        src = unparse(sl.func.value)
        ctx.instance(rule, fi.where(lp), f"cursor loop: {pv}.data = {src}.slice({cur}, {len_txt}); {cur} += {inc_txt}; init 0: {init_ok}")
        if not (ok and order_ok):
            ctx.violation(rule, fi.short, f"cursor {cur}: slice(len={len_txt}) += {inc_txt}", fi.where(lp),
                          f"_apply_data_post_processing: pages are not re-cut from `{src}` as consecutive slices (cursor {cur} from 0, slice(cursor, page height), "
                          "cursor advanced by the same height, unconditionally)")
        else:
            n_ok += 1
    if n_ok < 1:
        ctx.violation(rule, fi.short, f"cursor loops {n_ok}", fi.where(), "_apply_data_post_processing no longer re-slices the pages from the column-reduced frame by cumulative heights")
    srcs = [unparse(c.func.value) for lp in loops for c in ast.walk(lp) if isinstance(c, ast.Call) and isinstance(c.func, ast.Attribute) and c.func.attr == "slice"]
    if srcs[:1] != ["processed_df"]:
        ctx.violation(rule, fi.short, "slice sources " + str(srcs), fi.where(), "page data is not re-cut from the column-reduced frame")


def cursor_render_body(ctx: Ctx, rule: str) -> None:
    pm = ctx.pm
    fi = pm.func("PageRenderer._render_body")
    loops = [n for n in ast.walk(fi.node) if isinstance(n, ast.For) and unparse(n.iter) == "page.group_boundaries"]
    if len(loops) != 1:
        ctx.violation(rule, fi.short, "boundary loop", fi.where(), "_render_body no longer walks group boundaries in order")
        return
    lp = loops[0]
    t = unparse(fi.node)
    segs = [a for a in ast.walk(fi.node) if isinstance(a, ast.Assign) and unparse(a.targets[0]) == "segment"]
    forms = sorted(unparse(a.value) for a in segs)
    init = [a for a in ast.walk(fi.node) if isinstance(a, ast.Assign) and unparse(a.targets[0]) == "prev_row"]
    vals = [unparse(a.value) for a in init]
    ok_forms = forms == ["page_df[prev_row:]", "page_df[prev_row:page_rel_row]"]
    ok_cursor = sorted(vals) == ["0", "page_rel_row"]
    rel = next((unparse(a.value) for a in ast.walk(lp) if isinstance(a, ast.Assign) and unparse(a.targets[0]) == "page_rel_row"), "?")
    tail_if = [n for n in ast.walk(fi.node) if isinstance(n, ast.If) and unparse(n.test) in ("prev_row < len(page_df)", "prev_row < page_df.height", "len(page_df) > prev_row")]
    tail_ok = bool(tail_if) and tail_if[0].lineno > lp.lineno and not any(x is tail_if[0] for x in ast.walk(lp))
    seg_guard = [n for n in ast.walk(lp) if isinstance(n, ast.If) and unparse(n.test) in ("page_rel_row > prev_row", "prev_row < page_rel_row")]
    ctx.instance(rule, fi.where(lp), f"_render_body segments {forms}; cursor values {vals}; boundary row = {rel}; tail after loop under `{unparse(tail_if[0].test) if tail_if else '?'}`")
    if not (ok_forms and ok_cursor and tail_ok and seg_guard and rel == "boundary['page_relative_row']"):
        ctx.violation(rule, fi.short, f"segments {forms} cursor {vals} tail {bool(tail_ok)}", fi.where(lp),
                      "_render_body does not cut the page into [prev:boundary) segments plus the tail [prev:] with prev starting at 0 and advancing to each boundary "
                      "(rows are lost at the end of the page or duplicated)")
    enc = [c for c in ast.walk(fi.node) if isinstance(c, ast.Call) and isinstance(c.func, ast.Attribute) and c.func.attr == "_encode"]
    for c in enc:
        a0 = unparse(c.args[0]) if c.args else "?"
        ro = next((unparse(k.value) for k in c.keywords if k.arg == "row_offset"), "<default 0>")
        want = {"segment": "prev_row", "page_df": "0"}.get(a0)
        ctx.instance(rule, fi.where(c), f"_encode({a0}, col_widths, row_offset={ro})")
        if want is None or ro != want:
            ctx.violation(rule, fi.short, f"_encode({a0}, row_offset={ro})", fi.where(c), f"a segment starting at row `{want}` of the page is encoded with row_offset={ro}")
        if len(c.args) < 2 or unparse(c.args[1]) != "col_widths":
            ctx.violation(rule, fi.short, "_encode widths", fi.where(c), "a body segment is not encoded with the page's column widths")
    if len(enc) != 3:
        ctx.violation(rule, fi.short, f"_encode x{len(enc)}", fi.where(), "_render_body must encode: segments before boundaries, the tail, or the whole page (3 sites)")


# ------------------------------------------------------------------ _encode index agreement
def encode_index_agreement(ctx: Ctx, rule: str) -> None:
    pm = ctx.pm
    fi = pm.func("TableAttributes._encode")
    t = unparse(fi.node)
    loops = [n for n in walk_no_nested(fi.node) if isinstance(n, ast.For)]
    main = [lp for lp in loops if any(isinstance(c, ast.Call) and dotted(c.func) == "Row" for c in ast.walk(lp))]
    if len(main) != 1:
        ctx.violation(rule, fi.short, "row loop", fi.where(), "_encode no longer builds one Row per data row")
        return
    lp = main[0]
    iv = lp.target.id
    inner = [n for n in lp.body if isinstance(n, ast.For)]
    jv = inner[0].target.id if inner else "?"
    ok_ranges = unparse(lp.iter) == "range(dim[0])" and inner and unparse(inner[0].iter) == "range(dim[1])" and "dim = df.shape" in t
    row_src = next((unparse(a.value) for a in lp.body if isinstance(a, ast.Assign) and unparse(a.targets[0]) == "row"), "?")
    raw = next((unparse(a.value) for a in ast.walk(lp) if isinstance(a, ast.Assign) and unparse(a.targets[0]) == "raw_value"), "?")
    cellv = next((unparse(a.value) for a in ast.walk(lp) if isinstance(a, ast.Assign) and unparse(a.targets[0]) == "cell_value"), "?")
    width = None
    textkw = None
    for c in ast.walk(lp):
        if isinstance(c, ast.Call) and dotted(c.func) == "Cell":
            width = next((unparse(k.value) for k in c.keywords if k.arg == "width"), None)
        if isinstance(c, ast.Call) and dotted(c.func) == "TextContent":
            textkw = next((unparse(k.value) for k in c.keywords if k.arg == "text"), None)
    ok = ok_ranges and row_src == f"df.row({iv})" and raw == f"row[{jv}]" and cellv == "'' if raw_value is None else str(raw_value)" and \
        width == f"col_widths[{jv}]" and textkw == "cell_value"
    ctx.instance(rule, fi.where(lp), f"_encode: rows range(dim[0]) x cols range(dim[1]); row={row_src}, value={raw}, text={cellv}, width={width}")
    if not ok:
        ctx.violation(rule, fi.short, f"cell source row={row_src} value={raw} text={cellv} width={width}", fi.where(lp),
                      "_encode: cell (i, j) is not built from df.row(i)[j] (null -> '', else str(value)) with width col_widths[j] over the full ranges of the frame")
    apps = [c for c in ast.walk(lp) if isinstance(c, ast.Call) and isinstance(c.func, ast.Attribute) and c.func.attr == "append" and unparse(c.func.value) == "cells"]
    ext = [c for c in ast.walk(lp) if isinstance(c, ast.Call) and isinstance(c.func, ast.Attribute) and c.func.attr == "extend" and unparse(c.func.value) == "rows"]
    cond = [x for s in lp.body for x in ast.walk(s) if isinstance(x, (ast.Continue, ast.Break))]
    ok2 = len(apps) == 1 and len(ext) == 1 and not cond and inner and any(x is apps[0] for x in ast.walk(inner[0])) and \
        not any(isinstance(a, ast.If) for a in anc(apps[0], inner[0])) and not any(isinstance(a, (ast.If, ast.For)) and a is not lp for a in anc(ext[0], lp))
    reset = any(isinstance(a, ast.Assign) and unparse(a.targets[0]) == "cells" and unparse(a.value) == "[]" for a in lp.body)
    ctx.instance(rule, fi.where(lp), f"_encode: one cells.append per (i,j), one rows.extend per i, cells reset per row: {ok2 and reset}")
    if not (ok2 and reset):
        ctx.violation(rule, fi.short, "cell/row emission", fi.where(lp), "_encode does not emit exactly one cell per (row, column) and one table row per data row")
    rows_arg = next((unparse(k.value) for c in ast.walk(lp) if isinstance(c, ast.Call) and dotted(c.func) == "Row" for k in c.keywords if k.arg == "row_cells"), "?")
    if rows_arg != "cells":
        ctx.violation(rule, fi.short, "Row cells " + rows_arg, fi.where(lp), "the table row is not built from the cells of that data row")


# ------------------------------------------------------------------ column removal
def column_removal(ctx: Ctx, rule: str) -> None:
    """prepare_dataframe_for_body_encoding: the displayed frame, the attribute matrices and col_rel_width must be cut
    at the positions the removed columns have in the ORIGINAL frame.  Constructs are recognised by role (tolerant of
    container type, temporaries, helper closures, comprehension vs loop); their property-relevant attributes are then
    verified; a construct that cannot be recognised is an analysis gap, not a violation."""
    from ..astmatch import assignments, find, match, resolve, strip_wrappers
    pm = ctx.pm
    fi = pm.func("RTFEncodingService.prepare_dataframe_for_body_encoding")
    fn = fi.node
    asg = assignments(fn)
    params = [a.arg for a in fn.args.args]
    n_assign = {k: len(v) for k, v in asg.items()}

    def frame_kind(e: ast.AST) -> str:
        """'original' / 'shrinking' / '?' for an expression denoting a frame (or its column list)"""
        e = strip_wrappers(resolve(e, fn, _asg=asg))
        if isinstance(e, ast.Attribute) and e.attr == "columns":
            e = e.value
        if isinstance(e, ast.Call) and isinstance(e.func, ast.Attribute) and e.func.attr == "clone":
            e = e.func.value
        if isinstance(e, ast.Name):
            if e.id in params and n_assign.get(e.id, 0) == 0:
                return "original"
            if n_assign.get(e.id, 0) > 1:
                return "shrinking"
            if n_assign.get(e.id, 0) == 1:
                return frame_kind(asg[e.id][0])
        return "?"

    # 1. positions of removed columns
    pos_sites = []
    for n, b in find("_X.index(_C)", fn) + find("_X.get_column_index(_C)", fn):
        pos_sites.append((n, b["_X"], "lookup"))
    for n in ast.walk(fn):
        if isinstance(n, (ast.ListComp, ast.SetComp, ast.GeneratorExp)) and len(n.generators) == 1:
            g = n.generators[0]
            if isinstance(g.iter, ast.Call) and dotted(g.iter.func) == "enumerate" and g.iter.args and isinstance(g.target, ast.Tuple) and len(g.target.elts) == 2 \
                    and isinstance(n.elt, ast.Name) and isinstance(g.target.elts[0], ast.Name) and n.elt.id == g.target.elts[0].id \
                    and any("columns_to_remove" in unparse(c) for c in g.ifs):
                pos_sites.append((n, g.iter.args[0], "enumerate"))
    kinds = []
    for n, x, how in pos_sites:
        k = frame_kind(x)
        kinds.append(k)
        ctx.instance(rule, fi.where(n), f"position of a removed column ({how}) taken from `{unparse(x)}` -> {k} frame")
        if k == "shrinking":
            ctx.violation(rule, fi.short, "removed_indices " + unparse(n)[:80], fi.where(n),
                          f"positions of removed columns are looked up in `{unparse(x)}`, a frame that is re-bound while columns are dropped; with two or more "
                          "removed columns later positions shift and the wrong width/attribute entries are cut")
    if not pos_sites or all(k == "?" for k in kinds):
        ctx.gap(rule, "prepare_dataframe_for_body_encoding: how the positions of the removed columns are computed could not be re-identified")

    # 2. cuts: filter by position, or in-place deletion
    cuts = 0
    for n in ast.walk(fn):
        if isinstance(n, (ast.ListComp, ast.GeneratorExp)) and len(n.generators) == 1:
            g = n.generators[0]
            if isinstance(g.iter, ast.Call) and dotted(g.iter.func) == "enumerate" and isinstance(g.target, ast.Tuple) and len(g.target.elts) == 2 and len(g.ifs) == 1:
                i_name = g.target.elts[0].id if isinstance(g.target.elts[0], ast.Name) else None
                t = g.ifs[0]
                if i_name and isinstance(t, ast.Compare) and len(t.ops) == 1 and isinstance(t.left, ast.Name) and t.left.id == i_name \
                        and isinstance(t.ops[0], (ast.In, ast.NotIn)) and not any("columns_to_remove" in unparse(c) for c in g.ifs):
                    item_ok = isinstance(n.elt, ast.Name) and isinstance(g.target.elts[1], ast.Name) and n.elt.id == g.target.elts[1].id
                    cuts += 1
                    ctx.instance(rule, fi.where(n), f"cut by position: `{unparse(n)[:90]}`")
                    if isinstance(t.ops[0], ast.In):
                        ctx.violation(rule, fi.short, "index filters " + unparse(n)[:80], fi.where(n), "the filter keeps the entries AT the removed positions instead of dropping them")
                    elif not item_ok:
                        ctx.violation(rule, fi.short, "index filters " + unparse(n)[:80], fi.where(n), "the filter does not keep the entry itself")
    for n in ast.walk(fn):
        tgt = None
        if isinstance(n, ast.Delete) and len(n.targets) == 1 and isinstance(n.targets[0], ast.Subscript):
            tgt = n.targets[0].slice
        elif isinstance(n, ast.Call) and isinstance(n.func, ast.Attribute) and n.func.attr == "pop" and len(n.args) == 1:
            tgt = n.args[0]
        if tgt is None or not isinstance(tgt, ast.Name):
            continue
        loop = next((a for a in anc(n, fn) if isinstance(a, ast.For) and isinstance(a.target, ast.Name) and a.target.id == tgt.id), None)
        if loop is None:
            continue
        cuts += 1
        it = loop.iter
        src = resolve(it, fn, _asg=asg)
        desc = "reverse=True" in unparse(src) or (isinstance(src, ast.Call) and dotted(src.func) == "reversed")
        if isinstance(it, ast.Name):
            desc = desc or any(isinstance(c, ast.Call) and isinstance(c.func, ast.Attribute) and c.func.attr == "sort" and isinstance(c.func.value, ast.Name)
                               and c.func.value.id == it.id and "reverse=True" in unparse(c) for c in ast.walk(fn))
        ctx.instance(rule, fi.where(n), f"in-place deletion at positions from `{unparse(it)}` (descending: {desc})")
        if not desc:
            ctx.violation(rule, fi.short, "index filters in-place " + unparse(n)[:60], fi.where(n),
                          f"entries are deleted in place at positions taken from `{unparse(it)}` which is not in descending order: every deletion shifts the later positions")
    if cuts < 2:
        ctx.gap(rule, f"prepare_dataframe_for_body_encoding: only {cuts} cut(s) by position recognised (attribute rows and col_rel_width expected)")

    # 3. the displayed frame keeps the remaining columns in frame order
    sels = [c for c in ast.walk(fn) if isinstance(c, ast.Call) and isinstance(c.func, ast.Attribute) and c.func.attr in ("select", "drop")]
    if not sels:
        ctx.gap(rule, "prepare_dataframe_for_body_encoding: the reduction of the displayed frame (select/drop) could not be re-identified")
    for c in sels:
        if c.func.attr != "select" or not c.args:
            continue
        arg = resolve(c.args[0], fn, _asg=asg)
        ctx.instance(rule, fi.where(c), f"displayed frame: `{unparse(c)[:60]}` with `{unparse(arg)[:90]}`")
        if isinstance(arg, (ast.ListComp, ast.GeneratorExp)) and len(arg.generators) == 1:
            g = arg.generators[0]
            src = strip_wrappers(resolve(g.iter, fn, _asg=asg), names=("list", "tuple", "iter"))
            cond = [unparse(x) for x in g.ifs]
            if not (isinstance(src, ast.Attribute) and src.attr == "columns"):
                if isinstance(src, ast.Call) and dotted(src.func) in ("sorted", "set", "frozenset", "reversed") or isinstance(src, (ast.Set, ast.SetComp, ast.BinOp)):
                    ctx.violation(rule, fi.short, "remaining columns " + unparse(arg)[:80], fi.where(c), "the displayed columns are not taken in the frame's own column order")
                else:
                    ctx.gap(rule, f"prepare_dataframe_for_body_encoding: column source `{unparse(src)[:60]}` of the displayed frame not recognised")
            if len(cond) == 1 and match("_C in columns_to_remove", g.ifs[0]) is not None:
                ctx.violation(rule, fi.short, "remaining columns " + unparse(arg)[:80], fi.where(c), "the displayed frame keeps exactly the columns that should be removed")
            elif not (len(cond) == 1 and match("_C not in columns_to_remove", g.ifs[0]) is not None):
                ctx.gap(rule, f"prepare_dataframe_for_body_encoding: filter `{cond}` of the displayed columns not recognised")
            if not (isinstance(arg.elt, ast.Name) and isinstance(g.target, ast.Name) and arg.elt.id == g.target.id):
                ctx.gap(rule, "prepare_dataframe_for_body_encoding: displayed-column comprehension does not yield the column itself")
        else:
            ctx.gap(rule, f"prepare_dataframe_for_body_encoding: argument `{unparse(arg)[:60]}` of select not recognised")

    # 4. attribute grid is expanded to the ORIGINAL shape
    exps = find("BroadcastValue(value=_V, dimension=_D)", fn)
    if not exps:
        ctx.gap(rule, "prepare_dataframe_for_body_encoding: expansion of list attributes to the full grid (BroadcastValue(...)) not re-identified")
    for n, b in exps:
        d = b["_D"]
        srcs = []
        if isinstance(d, ast.Tuple):
            for e in d.elts:
                if isinstance(e, ast.Name):
                    # unpacked from X.shape ?
                    for a in walk_no_nested(fn):
                        if isinstance(a, ast.Assign) and isinstance(a.targets[0], (ast.Tuple, ast.List)) and any(isinstance(x, ast.Name) and x.id == e.id for x in a.targets[0].elts):
                            srcs.append(a.value)
                            break
                    else:
                        srcs.append(resolve(e, fn, _asg=asg))
                else:
                    srcs.append(resolve(e, fn, _asg=asg))
        else:
            srcs.append(resolve(d, fn, _asg=asg))
        ks = set()
        for sx in srcs:
            base = sx
            while isinstance(base, (ast.Subscript, ast.Attribute)) and not (isinstance(base, ast.Attribute) and base.attr in ("shape", "height", "width")):
                base = base.value
            if isinstance(base, ast.Attribute):
                ks.add(frame_kind(base.value))
            elif isinstance(base, ast.Call) and dotted(base.func) == "len" and base.args:
                ks.add(frame_kind(base.args[0]))
            else:
                ks.add("?")
        ctx.instance(rule, fi.where(n), f"attribute grid shape `{unparse(d)}` from {sorted(ks)} frame")
        if "shrinking" in ks:
            ctx.violation(rule, fi.short, "grid shape " + unparse(d), fi.where(n), "attributes are not expanded to the original frame's shape before columns are cut")
        elif ks != {"original"}:
            ctx.gap(rule, f"prepare_dataframe_for_body_encoding: source of the grid shape `{unparse(d)}` not recognised")

    # 5. cuts are applied to a deep copy of the caller's attributes
    stores = []
    for n in ast.walk(fn):
        if isinstance(n, ast.Call) and dotted(n.func) == "setattr" and n.args and isinstance(n.args[0], ast.Name):
            stores.append((n, n.args[0].id))
        elif isinstance(n, (ast.Assign, ast.AugAssign)):
            for t in (n.targets if isinstance(n, ast.Assign) else [n.target]):
                if isinstance(t, ast.Attribute) and isinstance(t.value, ast.Name) and t.value.id not in ("self",):
                    stores.append((n, t.value.id))
    if not stores:
        ctx.gap(rule, "prepare_dataframe_for_body_encoding: no store of a cut attribute recognised")
    for n, name in stores:
        vals = asg.get(name, [])
        texts = [unparse(v) for v in vals]
        deep = [t for t in texts if "model_copy(deep=True)" in t or "deepcopy(" in t]
        alias = [t for t in texts if t in params or t.endswith(".model_copy()") or t.startswith("copy.copy(")]
        ctx.instance(rule, fi.where(n), f"attribute store on `{name}` bound to {texts}")
        if name in params or (alias and not deep):
            ctx.violation(rule, fi.short, "attrs copy", fi.where(n), f"attributes are cut in place on `{name}` (the caller's object or a shallow copy of it) instead of on a deep copy")
        elif not deep:
            ctx.gap(rule, f"prepare_dataframe_for_body_encoding: origin of `{name}` not recognised")

    # 6. result: (reduced frame, original frame, reduced attributes)
    rets = [r for r in walk_no_nested(fn) if isinstance(r, ast.Return)]
    for r in rets:
        v = r.value
        if not (isinstance(v, ast.Tuple) and len(v.elts) == 3):
            ctx.gap(rule, f"prepare_dataframe_for_body_encoding: `{unparse(r)[:60]}` is not a triple")
            continue
        k0, k1 = frame_kind(v.elts[0]), frame_kind(v.elts[1])
        ctx.instance(rule, fi.where(r), f"returns ({unparse(v.elts[0])}: {k0}, {unparse(v.elts[1])}: {k1}, {unparse(v.elts[2])})")
        if k0 == "original" and k1 == "shrinking":
            ctx.violation(rule, fi.short, "return", fi.where(r), "prepare_dataframe_for_body_encoding returns (original, reduced) instead of (reduced frame, original frame, attributes)")


def body_section_widths(ctx: Ctx, rule: str) -> None:
    """_encode_body_section: widths of the displayed columns come from the reduced attributes and the page's col_width.
    Temporaries and if/else arms are expanded; a width built from anything but rtf_page.col_width (with the 8.5
    default) is a violation, an expression that cannot be read is an analysis gap."""
    from ..astmatch import alternatives, leaves
    pm = ctx.pm
    fi = pm.func("UnifiedRTFEncoder._encode_body_section")
    fn = fi.node
    calls = [c for c in walk_no_nested(fn) if isinstance(c, ast.Call) and dotted(c.func).endswith("_col_widths")]
    if not calls:
        ctx.gap(rule, "_encode_body_section: no call of Utils._col_widths recognised")
    for c in calls:
        if len(c.args) < 2:
            ctx.gap(rule, f"_encode_body_section: `{unparse(c)[:60]}` arguments not recognised")
            continue
        w_alts = alternatives(c.args[1], fn)
        any_page = any("document.rtf_page.col_width" in leaves(w) for w in w_alts)
        for w in w_alts:
            wt = unparse(w)
            lv = set(leaves(w))
            arith = any(isinstance(n, (ast.BinOp,)) for n in ast.walk(w))
            call = [dotted(n.func) for n in ast.walk(w) if isinstance(n, ast.Call)]
            ok = lv <= {"document.rtf_page.col_width", "8.5", "None"} and any_page and not arith and not call
            ctx.instance(rule, fi.where(c), f"_encode_body_section: table width `{wt[:100]}`")
            if ok:
                continue
            foreign = [x for x in lv if x.startswith("document.") and x != "document.rtf_page.col_width"]
            if foreign or arith or any(f in ("min", "max", "sum") for f in call):
                ctx.violation(rule, fi.short, "table width " + wt[:80], fi.where(c),
                              f"data rows are laid out in `{wt[:120]}` instead of the configured rtf_page.col_width that every other row uses")
            else:
                ctx.gap(rule, f"_encode_body_section: table width `{wt[:80]}` could not be traced to rtf_page.col_width")
        for r in alternatives(c.args[0], fn):
            rt = unparse(r)
            ok = rt in ("processed_attrs.col_rel_width", "[1] * processed_df.shape[1]", "[1] * processed_df.width", "[1] * len(processed_df.columns)")
            ctx.instance(rule, fi.where(c), f"_encode_body_section: relative widths `{rt[:100]}`")
            if ok:
                continue
            lv = leaves(r)
            if any(x.endswith("col_rel_width") and not x.startswith("processed_attrs.") for x in lv) or any(x.startswith(("original_df", "df.")) for x in lv):
                ctx.violation(rule, fi.short, "relative widths " + rt[:80], fi.where(c), f"data column widths come from `{rt[:100]}`, not from the reduced (displayed) attributes/frame")
            else:
                ctx.gap(rule, f"_encode_body_section: relative widths `{rt[:80]}` not recognised")
    passed = [k for n in walk_no_nested(fn) if isinstance(n, ast.Call) for k in n.keywords if k.arg == "col_widths"]
    if not passed:
        ctx.gap(rule, "_encode_body_section: the computed column widths are not seen being handed to pagination/rendering (col_widths=...)")
    for k in passed:
        vals = {unparse(v) for v in alternatives(k.value, fn)}
        if not any("_col_widths(" in v for v in vals):
            ctx.violation(rule, fi.short, "widths not passed", fi.where(), f"`col_widths={unparse(k.value)}` handed to pagination/rendering is not the result of Utils._col_widths")


def broadcast_expansion(ctx: Ctx, rule: str) -> None:
    """BroadcastValue.to_list tiles the stored block up to the requested shape: repeats must be the
    ceiling of dimension / block size, and the result is cut to exactly the requested shape"""
    pm = ctx.pm
    fi = pm.func("BroadcastValue.to_list")
    env = {unparse(a.targets[0]): a.value for a in walk_no_nested(fi.node) if isinstance(a, ast.Assign) and len(a.targets) == 1}
    counts = unparse(env.get("(row_count, col_count)", env.get("row_count, col_count"))) if ("(row_count, col_count)" in env or "row_count, col_count" in env) else "?"
    for name, dim_i, cnt in (("row_repeats", 0, "row_count"), ("col_repeats", 1, "col_count")):
        v = env.get(name)
        ok = False
        desc = unparse(v) if v is not None else "?"
        if isinstance(v, ast.Call) and dotted(v.func) == "max" and len(v.args) == 2 and unparse(v.args[0]) == "1":
            q = v.args[1]
            if isinstance(q, ast.BinOp) and isinstance(q.op, ast.FloorDiv) and unparse(q.right) == cnt:
                ok = linform(q.left) == {f"self.dimension[{dim_i}]": 1, cnt: 1, "": -1}
        ctx.instance(rule, fi.where(v) if v is not None else fi.where(), f"BroadcastValue.to_list {name} = {desc} (ceiling division: {ok})")
        if not ok:
            ctx.violation(rule, fi.short, f"{name} = {desc}", fi.where(),
                          f"BroadcastValue.to_list computes {name} as `{desc}`, not ceil(dimension/block) = (dimension + block - 1) // block: a block that does not divide the "
                          "table is tiled too short and a later per-page border update indexes past the end (IndexError during rtf_encode)")
    t = unparse(fi.node)
    ok = "[row[:self.dimension[1]] for row in value[:self.dimension[0]]]" in t and "value = [column * col_repeats for column in self.value] * row_repeats" in t \
        and "(len(self.value), len(self.value[0]))" in t
    ctx.instance(rule, fi.where(), f"to_list tiles columns then rows and cuts to exactly the requested shape: {ok}")
    if not ok:
        ctx.violation(rule, fi.short, "tiling/cut", fi.where(), "BroadcastValue.to_list no longer tiles the block (columns, then rows) and cuts the result to exactly dimension[0] x dimension[1]")
