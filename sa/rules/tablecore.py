"""Rules over the table pipeline shared by C02, C03, C08 and C09 (slicing cursors, index agreement,
column removal, width provenance, attribute binding)."""
from __future__ import annotations

import ast

from ..linform import linform, single_assign_env
from ..pm import AnalysisError, dotted, unparse, walk_no_nested
from ..report import Ctx


def anc(n, stop):
    p = getattr(n, "_parent", None)
    while p is not None and p is not stop:
        yield p
        p = getattr(p, "_parent", None)


# ------------------------------------------------------------------ cursor partitions
def cursor_post_processing(ctx: Ctx, rule: str) -> None:
    """_apply_data_post_processing: pages re-sliced from the reduced frame by a cursor"""
    pm = ctx.pm
    fi = pm.func("UnifiedRTFEncoder._apply_data_post_processing")
    loops = sorted((n for n in walk_no_nested(fi.node) if isinstance(n, ast.For) and unparse(n.iter) == "pages"), key=lambda n: n.lineno)
    n_ok = 0
    for lp in loops:
        pv = lp.target.id if isinstance(lp.target, ast.Name) else "?"
        slices = [c for c in ast.walk(lp) if isinstance(c, ast.Call) and isinstance(c.func, ast.Attribute) and c.func.attr == "slice"]
        if not slices:
            continue
        sl = slices[0]
        env = {unparse(a.targets[0]): a.value for a in ast.walk(lp) if isinstance(a, ast.Assign) and len(a.targets) == 1 and isinstance(a.targets[0], ast.Name)}
        cur = unparse(sl.args[0]) if sl.args else "?"
        length = sl.args[1] if len(sl.args) > 1 else None
        while isinstance(length, ast.Name) and length.id in env:
            length = env[length.id]
        aug = [a for a in ast.walk(lp) if isinstance(a, ast.AugAssign) and unparse(a.target) == cur and isinstance(a.op, ast.Add)]
        inc = aug[0].value if aug else None
        while isinstance(inc, ast.Name) and inc.id in env:
            inc = env[inc.id]
        store = [a for a in ast.walk(lp) if isinstance(a, ast.Assign) and unparse(a.targets[0]) == f"{pv}.data" and any(x is sl for x in ast.walk(a.value))]
        # initialisation to 0 before the loop
        init = [a for a in walk_no_nested(fi.node) if isinstance(a, ast.Assign) and unparse(a.targets[0]) == cur and a.lineno < lp.lineno]
        init_ok = bool(init) and unparse(init[-1].value) == "0"
        len_txt, inc_txt = unparse(length), unparse(inc)
        ok = len_txt == f"{pv}.data.height" and inc_txt == len_txt and len(aug) == 1 and store and init_ok and \
            not any(isinstance(x, (ast.If, ast.Continue, ast.Break)) for s in lp.body for x in ast.walk(s))
        order_ok = False
        if store and aug:
            order_ok = store[0].lineno < aug[0].lineno
        src = unparse(sl.func.value)
        ctx.instance(rule, fi.where(lp), f"cursor loop: {pv}.data = {src}.slice({cur}, {len_txt}); {cur} += {inc_txt}; init 0: {init_ok}")
        if not (ok and order_ok):
            ctx.violation(rule, fi.short, f"cursor {cur}: slice(len={len_txt}) += {inc_txt}", fi.where(lp),
                          f"_apply_data_post_processing: pages are not re-cut from `{src}` as consecutive slices (cursor {cur} from 0, slice(cursor, page height), "
                          "cursor advanced by the same height, unconditionally)")
        else:
            n_ok += 1
    if n_ok < 1:
        ctx.violation(rule, fi.short, f"cursor loops {n_ok}", fi.where(), "_apply_data_post_processing no longer re-slices the pages from the column-reduced frame by cumulative heights")
    srcs = [unparse(c.func.value) for lp in loops for c in ast.walk(lp) if isinstance(c, ast.Call) and isinstance(c.func, ast.Attribute) and c.func.attr == "slice"]
    if srcs[:1] != ["processed_df"]:
        ctx.violation(rule, fi.short, "slice sources " + str(srcs), fi.where(), "page data is not re-cut from the column-reduced frame")


def cursor_render_body(ctx: Ctx, rule: str) -> None:
    pm = ctx.pm
    fi = pm.func("PageRenderer._render_body")
    loops = [n for n in ast.walk(fi.node) if isinstance(n, ast.For) and unparse(n.iter) == "page.group_boundaries"]
    if len(loops) != 1:
        ctx.violation(rule, fi.short, "boundary loop", fi.where(), "_render_body no longer walks group boundaries in order")
        return
    lp = loops[0]
    t = unparse(fi.node)
    segs = [a for a in ast.walk(fi.node) if isinstance(a, ast.Assign) and unparse(a.targets[0]) == "segment"]
    forms = sorted(unparse(a.value) for a in segs)
    init = [a for a in ast.walk(fi.node) if isinstance(a, ast.Assign) and unparse(a.targets[0]) == "prev_row"]
    vals = [unparse(a.value) for a in init]
    ok_forms = forms == ["page_df[prev_row:]", "page_df[prev_row:page_rel_row]"]
    ok_cursor = sorted(vals) == ["0", "page_rel_row"]
    rel = next((unparse(a.value) for a in ast.walk(lp) if isinstance(a, ast.Assign) and unparse(a.targets[0]) == "page_rel_row"), "?")
    tail_if = [n for n in ast.walk(fi.node) if isinstance(n, ast.If) and unparse(n.test) in ("prev_row < len(page_df)", "prev_row < page_df.height", "len(page_df) > prev_row")]
    tail_ok = bool(tail_if) and tail_if[0].lineno > lp.lineno and not any(x is tail_if[0] for x in ast.walk(lp))
    seg_guard = [n for n in ast.walk(lp) if isinstance(n, ast.If) and unparse(n.test) in ("page_rel_row > prev_row", "prev_row < page_rel_row")]
    ctx.instance(rule, fi.where(lp), f"_render_body segments {forms}; cursor values {vals}; boundary row = {rel}; tail after loop under `{unparse(tail_if[0].test) if tail_if else '?'}`")
    if not (ok_forms and ok_cursor and tail_ok and seg_guard and rel == "boundary['page_relative_row']"):
        ctx.violation(rule, fi.short, f"segments {forms} cursor {vals} tail {bool(tail_ok)}", fi.where(lp),
                      "_render_body does not cut the page into [prev:boundary) segments plus the tail [prev:] with prev starting at 0 and advancing to each boundary "
                      "(rows are lost at the end of the page or duplicated)")
    enc = [c for c in ast.walk(fi.node) if isinstance(c, ast.Call) and isinstance(c.func, ast.Attribute) and c.func.attr == "_encode"]
    for c in enc:
        a0 = unparse(c.args[0]) if c.args else "?"
        ro = next((unparse(k.value) for k in c.keywords if k.arg == "row_offset"), "<default 0>")
        want = {"segment": "prev_row", "page_df": "0"}.get(a0)
        ctx.instance(rule, fi.where(c), f"_encode({a0}, col_widths, row_offset={ro})")
        if want is None or ro != want:
            ctx.violation(rule, fi.short, f"_encode({a0}, row_offset={ro})", fi.where(c), f"a segment starting at row `{want}` of the page is encoded with row_offset={ro}")
        if len(c.args) < 2 or unparse(c.args[1]) != "col_widths":
            ctx.violation(rule, fi.short, "_encode widths", fi.where(c), "a body segment is not encoded with the page's column widths")
    if len(enc) != 3:
        ctx.violation(rule, fi.short, f"_encode x{len(enc)}", fi.where(), "_render_body must encode: segments before boundaries, the tail, or the whole page (3 sites)")


# ------------------------------------------------------------------ _encode index agreement
def encode_index_agreement(ctx: Ctx, rule: str) -> None:
    pm = ctx.pm
    fi = pm.func("TableAttributes._encode")
    t = unparse(fi.node)
    loops = [n for n in walk_no_nested(fi.node) if isinstance(n, ast.For)]
    main = [lp for lp in loops if any(isinstance(c, ast.Call) and dotted(c.func) == "Row" for c in ast.walk(lp))]
    if len(main) != 1:
        ctx.violation(rule, fi.short, "row loop", fi.where(), "_encode no longer builds one Row per data row")
        return
    lp = main[0]
    iv = lp.target.id
    inner = [n for n in lp.body if isinstance(n, ast.For)]
    jv = inner[0].target.id if inner else "?"
    ok_ranges = unparse(lp.iter) == "range(dim[0])" and inner and unparse(inner[0].iter) == "range(dim[1])" and "dim = df.shape" in t
    row_src = next((unparse(a.value) for a in lp.body if isinstance(a, ast.Assign) and unparse(a.targets[0]) == "row"), "?")
    raw = next((unparse(a.value) for a in ast.walk(lp) if isinstance(a, ast.Assign) and unparse(a.targets[0]) == "raw_value"), "?")
    cellv = next((unparse(a.value) for a in ast.walk(lp) if isinstance(a, ast.Assign) and unparse(a.targets[0]) == "cell_value"), "?")
    width = None
    textkw = None
    for c in ast.walk(lp):
        if isinstance(c, ast.Call) and dotted(c.func) == "Cell":
            width = next((unparse(k.value) for k in c.keywords if k.arg == "width"), None)
        if isinstance(c, ast.Call) and dotted(c.func) == "TextContent":
            textkw = next((unparse(k.value) for k in c.keywords if k.arg == "text"), None)
    ok = ok_ranges and row_src == f"df.row({iv})" and raw == f"row[{jv}]" and cellv == "'' if raw_value is None else str(raw_value)" and \
        width == f"col_widths[{jv}]" and textkw == "cell_value"
    ctx.instance(rule, fi.where(lp), f"_encode: rows range(dim[0]) x cols range(dim[1]); row={row_src}, value={raw}, text={cellv}, width={width}")
    if not ok:
        ctx.violation(rule, fi.short, f"cell source row={row_src} value={raw} text={cellv} width={width}", fi.where(lp),
                      "_encode: cell (i, j) is not built from df.row(i)[j] (null -> '', else str(value)) with width col_widths[j] over the full ranges of the frame")
    apps = [c for c in ast.walk(lp) if isinstance(c, ast.Call) and isinstance(c.func, ast.Attribute) and c.func.attr == "append" and unparse(c.func.value) == "cells"]
    ext = [c for c in ast.walk(lp) if isinstance(c, ast.Call) and isinstance(c.func, ast.Attribute) and c.func.attr == "extend" and unparse(c.func.value) == "rows"]
    cond = [x for s in lp.body for x in ast.walk(s) if isinstance(x, (ast.Continue, ast.Break))]
    ok2 = len(apps) == 1 and len(ext) == 1 and not cond and inner and any(x is apps[0] for x in ast.walk(inner[0])) and \
        not any(isinstance(a, ast.If) for a in anc(apps[0], inner[0])) and not any(isinstance(a, (ast.If, ast.For)) and a is not lp for a in anc(ext[0], lp))
    reset = any(isinstance(a, ast.Assign) and unparse(a.targets[0]) == "cells" and unparse(a.value) == "[]" for a in lp.body)
    ctx.instance(rule, fi.where(lp), f"_encode: one cells.append per (i,j), one rows.extend per i, cells reset per row: {ok2 and reset}")
    if not (ok2 and reset):
        ctx.violation(rule, fi.short, "cell/row emission", fi.where(lp), "_encode does not emit exactly one cell per (row, column) and one table row per data row")
    rows_arg = next((unparse(k.value) for c in ast.walk(lp) if isinstance(c, ast.Call) and dotted(c.func) == "Row" for k in c.keywords if k.arg == "row_cells"), "?")
    if rows_arg != "cells":
        ctx.violation(rule, fi.short, "Row cells " + rows_arg, fi.where(lp), "the table row is not built from the cells of that data row")


# ------------------------------------------------------------------ column removal
def column_removal(ctx: Ctx, rule: str) -> None:
    pm = ctx.pm
    fi = pm.func("RTFEncodingService.prepare_dataframe_for_body_encoding")
    env = {unparse(a.targets[0]): a.value for a in walk_no_nested(fi.node) if isinstance(a, ast.Assign) and len(a.targets) == 1}
    rem = unparse(env["remaining_columns"]) if "remaining_columns" in env else "?"
    ok_rem = rem == "[col for col in processed_df.columns if col not in columns_to_remove]"
    sel = [c for c in walk_no_nested(fi.node) if isinstance(c, ast.Call) and isinstance(c.func, ast.Attribute) and c.func.attr == "select"]
    ok_sel = len(sel) == 1 and unparse(sel[0]) == "processed_df.select(remaining_columns)"
    ctx.instance(rule, fi.where(), f"remaining columns `{rem}`; select: {unparse(sel[0]) if sel else '?'}")
    if not (ok_rem and ok_sel):
        ctx.violation(rule, fi.short, "remaining columns " + rem, fi.where(), "displayed columns are not the frame's own columns, in their order, minus the removed set")
    ridx = unparse(env["removed_indices"]) if "removed_indices" in env else "?"
    ok_idx = ridx == "[original_df.columns.index(col) for col in columns_to_remove]"
    shape = next((unparse(a.value) for a in walk_no_nested(fi.node) if isinstance(a, ast.Assign) and unparse(a.targets[0]) in ("(rows, cols)", "rows, cols")), "?")
    ctx.instance(rule, fi.where(), f"removed indices `{ridx}`; attribute grid shape from {shape}")
    if not ok_idx:
        ctx.violation(rule, fi.short, "removed_indices " + ridx, fi.where(),
                      "positions of removed columns are not looked up in the ORIGINAL frame's column list; with two or more removed columns later positions shift "
                      "and the wrong width/attribute entries are cut")
    if shape != "original_df.shape":
        ctx.violation(rule, fi.short, "grid shape " + shape, fi.where(), "attributes are not expanded to the original frame's shape before columns are cut")
    filters = [unparse(n) for n in ast.walk(fi.node) if isinstance(n, ast.ListComp) and "removed_indices" in unparse(n)]
    want = {"[item for i, item in enumerate(row_data) if i not in removed_indices]", "[w for i, w in enumerate(current_widths) if i not in removed_indices]"}
    ctx.instance(rule, fi.where(), f"index filters: {filters}")
    if set(filters) != want:
        ctx.violation(rule, fi.short, "index filters " + str(filters), fi.where(), "col_rel_width and the attribute matrices are not cut with the same removed index set")
    t = unparse(fi.node)
    if "expanded = BroadcastValue(value=val, dimension=(rows, cols)).to_list()" not in t or "setattr(processed_attrs, attr_name, sliced_expanded)" not in t:
        ctx.violation(rule, fi.short, "attribute slicing", fi.where(), "list attributes are no longer expanded to the full grid, cut column-wise and stored back")
    if "processed_attrs = rtf_attrs.model_copy(deep=True)" not in t:
        ctx.violation(rule, fi.short, "attrs copy", fi.where(), "attributes are cut in place instead of on a deep copy")
    if "len(current_widths) == cols" not in t or "processed_attrs.col_rel_width = new_widths" not in t:
        ctx.violation(rule, fi.short, "width slicing", fi.where(), "col_rel_width is not cut together with the columns")
    if "return (processed_df, original_df, processed_attrs)" not in t:
        ctx.violation(rule, fi.short, "return", fi.where(), "prepare_dataframe_for_body_encoding no longer returns (reduced frame, original frame, reduced attributes)")


def body_section_widths(ctx: Ctx, rule: str) -> None:
    """_encode_body_section: widths of the displayed columns from the reduced attributes and the page's col_width"""
    pm = ctx.pm
    fi = pm.func("UnifiedRTFEncoder._encode_body_section")
    env = single_assign_env(fi.node)
    calls = [c for c in walk_no_nested(fi.node) if isinstance(c, ast.Call) and dotted(c.func).endswith("_col_widths")]
    for c in calls:
        rel = unparse(c.args[0])
        w = c.args[1]
        while isinstance(w, ast.Name) and w.id in env:
            w = env[w.id]
        wt = unparse(w)
        inner = wt.replace("col_total_width", "document.rtf_page.col_width")
        ok_w = inner in ("document.rtf_page.col_width", "document.rtf_page.col_width if document.rtf_page.col_width is not None else 8.5")
        ok_rel = rel in ("processed_attrs.col_rel_width", "[1] * processed_df.shape[1]")
        ctx.instance(rule, fi.where(c), f"_encode_body_section: _col_widths({rel}, {inner})")
        if not ok_w:
            ctx.violation(rule, fi.short, "table width " + inner, fi.where(c), f"data rows are laid out in `{inner}` instead of the configured rtf_page.col_width that every other row uses")
        if not ok_rel:
            ctx.violation(rule, fi.short, "relative widths " + rel, fi.where(c), f"data column widths come from `{rel}`, not from the reduced (displayed) attributes")
    if len(calls) != 2:
        ctx.violation(rule, fi.short, f"_col_widths x{len(calls)}", fi.where(), "_encode_body_section no longer derives the page's column widths from relative widths")
    t = unparse(fi.node)
    if "col_widths=col_widths" not in t:
        ctx.violation(rule, fi.short, "widths not passed", fi.where(), "the computed column widths are not handed to pagination/rendering")


def broadcast_expansion(ctx: Ctx, rule: str) -> None:
    """BroadcastValue.to_list tiles the stored block up to the requested shape: repeats must be the
    ceiling of dimension / block size, and the result is cut to exactly the requested shape"""
    pm = ctx.pm
    fi = pm.func("BroadcastValue.to_list")
    env = {unparse(a.targets[0]): a.value for a in walk_no_nested(fi.node) if isinstance(a, ast.Assign) and len(a.targets) == 1}
    counts = unparse(env.get("(row_count, col_count)", env.get("row_count, col_count"))) if ("(row_count, col_count)" in env or "row_count, col_count" in env) else "?"
    for name, dim_i, cnt in (("row_repeats", 0, "row_count"), ("col_repeats", 1, "col_count")):
        v = env.get(name)
        ok = False
        desc = unparse(v) if v is not None else "?"
        if isinstance(v, ast.Call) and dotted(v.func) == "max" and len(v.args) == 2 and unparse(v.args[0]) == "1":
            q = v.args[1]
            if isinstance(q, ast.BinOp) and isinstance(q.op, ast.FloorDiv) and unparse(q.right) == cnt:
                ok = linform(q.left) == {f"self.dimension[{dim_i}]": 1, cnt: 1, "": -1}
        ctx.instance(rule, fi.where(v) if v is not None else fi.where(), f"BroadcastValue.to_list {name} = {desc} (ceiling division: {ok})")
        if not ok:
            ctx.violation(rule, fi.short, f"{name} = {desc}", fi.where(),
                          f"BroadcastValue.to_list computes {name} as `{desc}`, not ceil(dimension/block) = (dimension + block - 1) // block: a block that does not divide the "
                          "table is tiled too short and a later per-page border update indexes past the end (IndexError during rtf_encode)")
    t = unparse(fi.node)
    ok = "[row[:self.dimension[1]] for row in value[:self.dimension[0]]]" in t and "value = [column * col_repeats for column in self.value] * row_repeats" in t \
        and "(len(self.value), len(self.value[0]))" in t
    ctx.instance(rule, fi.where(), f"to_list tiles columns then rows and cuts to exactly the requested shape: {ok}")
    if not ok:
        ctx.violation(rule, fi.short, "tiling/cut", fi.where(), "BroadcastValue.to_list no longer tiles the block (columns, then rows) and cuts the result to exactly dimension[0] x dimension[1]")
