"""Rules over the table pipeline shared by C02, C03, C08 and C09 (slicing cursors, index agreement,
column removal, width provenance, attribute binding).

Most rules here are decided by *scenario execution* (class Scen at the end of this module): the function
under analysis is interpreted (sa/dtab.py evaluates its syntax tree; nothing of the repository is
imported or run) on a small mock table whose rows, columns, widths and attribute entries are all
distinguishable, over every valuation of the configuration it reads.  The rule then checks what the
function DOES with those rows/entries against the property (positive evidence -> violation); a
construct outside the interpreter's subset is an analysis gap.  Two rules (column removal, body widths)
keep a structural fallback for the case that the function cannot be interpreted."""
from __future__ import annotations

import ast

from ..pm import AnalysisError, dotted, unparse, walk_no_nested
from ..report import Ctx


def anc(n, stop):
    p = getattr(n, "_parent", None)
    while p is not None and p is not stop:
        yield p
        p = getattr(p, "_parent", None)


ABSTRACTION = ("abstract evaluation (sa/dtab.py + tablecore.Scen) of the function's syntax tree; nothing of the repository is imported, exec'd or eval'd. "
               "Cell values, attribute entries, widths handed through and results of uninterpreted calls are opaque tagged atoms; conditions on "
               "unknown configuration fork the evaluation and ALL valuations are enumerated; table shapes / page layouts / listed configurations are "
               "fixed witnesses")


def scenario_note(ctx: Ctx, rule: str, function: str, decided_for: str, witnesses: dict) -> None:
    """state in the evidence what the scenario evaluation of `function` covers: an explain sentence, the bound as an assumption, counts in extra"""
    seen = ctx.extra.setdefault("scenarios", {})
    key = f"{rule} {function}"
    if key in seen:
        return
    seen[key] = dict(witnesses)
    ctx.explain(f"[{rule}] {function}: {ABSTRACTION}; decided {decided_for}; witness set {witnesses}; other shapes/configurations are not explored.")
    ctx.assume(f"{rule} ({function}): the verdict is a bounded-witness verdict - it holds for every value of the tagged atoms on the listed shapes/configurations "
               f"({witnesses}), not for all shapes; it relies on the function treating cell/attribute values opaquely (apart from `is None` / str())")
    ctx.assume("scenario evaluation: a construct outside the evaluator's subset, a native error on a mock value, more than 24 undetermined conditions or "
               "more than 512 valuations end in an analysis gap (or the structural fallback where one exists), never in a verdict")


# ------------------------------------------------------------------ cursor partitions
def _describe_rows(got: list, want: list) -> str:
    lost = [r for r in want if r not in got]
    dup = sorted({r for r in got if got.count(r) > 1})
    if lost or dup:
        return (f"rows {lost} lost" if lost else "") + (" and " if lost and dup else "") + (f"rows {dup} emitted more than once" if dup else "")
    return f"rows emitted in the order {got}"


def cursor_post_processing(ctx: Ctx, rule: str) -> None:
    """_apply_data_post_processing: every page's data is re-cut from the column-reduced frame (and, with group_by, from the
    restored frame) as consecutive slices of the pages' own heights.  Decided by interpreting the function on mock pages."""
    pm = ctx.pm
    fi = pm.func("UnifiedRTFEncoder._apply_data_post_processing")
    params = [a.arg for a in fi.node.args.args]
    scenario_note(ctx, rule, "UnifiedRTFEncoder._apply_data_post_processing", "for every content of the frames",
                  {"pages": 3, "page heights": [3, 1, 2], "reduced columns": 2, "group_by": ["unset", "set"], "evaluations": 2})
    if len(params) < 4:
        ctx.gap(rule, "_apply_data_post_processing: signature (self, pages, frame, body) not recognised")
        return
    heights = [3, 1, 2]
    total = sum(heights)
    n_runs = 0
    for gb in (None, ["g"]):
        pages, start = [], 0
        for k, h in enumerate(heights):
            pages.append(Obj(f"page{k}", data=Frame("paginated", range(start, start + h), ["g", "a", "b"])))
            start += h
        reduced = Frame("reduced", range(total), ["a", "b"])
        body = Obj("rtf_body", group_by=gb)
        sc = Scen(pm, frame_passthrough=("enhance_group_by", "restore_page_context"))
        try:
            runs = sc.runs(fi, {params[0]: Sym("self", fi.cls), params[1]: pages, params[2]: reduced, params[3]: body})
        except AnalysisError as e:
            ctx.gap(rule, f"_apply_data_post_processing could not be interpreted on mock pages: {e}")
            return
        for val, r in runs:
            n_runs += 1
            if r.raised:
                ctx.gap(rule, f"_apply_data_post_processing raises {r.raised} on mock pages of heights {heights}")
                continue
            # the pages the run worked on are the (copied) first argument: recover them from the stores
            final = {}
            for m in r.trace:
                if m.name == "store" and m.args[0] == "data" and isinstance(m.recv, Obj):
                    final[m.recv.name] = m.args[1]
            got_rows, tags, bad = [], set(), False
            for k, h in enumerate(heights):
                fr = final.get(f"page{k}")
                if not isinstance(fr, Frame):
                    bad = True
                    break
                got_rows.extend(fr.rows)
                tags.add(fr.tag)
            desc = f"group_by={'set' if gb else 'unset'}: pages of heights {heights} re-cut as {[final[f'page{k}'].rows for k in range(len(heights))] if not bad else '?'} from {sorted(tags)}"
            ctx.instance(rule, fi.where(), "cursor re-slice, " + desc)
            if bad:
                ctx.gap(rule, "_apply_data_post_processing: no frame is stored into page.data on a mock page")
                continue
            if got_rows != list(range(total)):
                ctx.violation(rule, fi.short, "cursor re-slice: " + _describe_rows(got_rows, list(range(total))), fi.where(),
                              f"_apply_data_post_processing ({'with' if gb else 'without'} group_by): pages of heights {heights} are re-cut as rows "
                              f"{[final[f'page{k}'].rows for k in range(len(heights))]}; {_describe_rows(got_rows, list(range(total)))} "
                              "(pages must be consecutive slices: cursor from 0, slice(cursor, page height), cursor advanced by the same height)")
            elif any(len(final[f"page{k}"].rows) != h for k, h in enumerate(heights)):
                ctx.violation(rule, fi.short, "cursor re-slice: page heights changed", fi.where(), "_apply_data_post_processing moves rows from one page to another")
            if tags == {"paginated"}:
                ctx.violation(rule, fi.short, "slice sources " + str(sorted(tags)), fi.where(), "page data is not re-cut from the column-reduced frame")
            elif not all("reduced" in t for t in tags):
                ctx.gap(rule, f"_apply_data_post_processing: page data comes from {sorted(tags)}, which could not be traced to the column-reduced frame")
            if any(final[f"page{k}"].cols != ["a", "b"] for k in range(len(heights))):
                ctx.violation(rule, fi.short, "slice sources columns", fi.where(), "page data does not carry the displayed (reduced) columns")
    if not n_runs:
        ctx.gap(rule, "_apply_data_post_processing: no path could be interpreted")


_BODY_SCENARIOS = (
    ("two boundaries (one with, one without heading), one-row tail", 6,
     [{"page_relative_row": 2, "group_values": {"g": "B"}}, {"page_relative_row": 5}]),
    ("boundary at row 0, empty heading values, multi-row tail", 7,
     [{"page_relative_row": 0, "group_values": {"g": "A"}}, {"page_relative_row": 3, "group_values": {}}, {"page_relative_row": 4, "group_values": {"g": "C"}}]),
    ("single boundary before the last row", 5, [{"page_relative_row": 4, "group_values": {"g": "B"}}]),
    ("no boundary", 4, []),
)


def cursor_render_body(ctx: Ctx, rule: str) -> None:
    """_render_body: the page's rows reach TableAttributes._encode exactly once, in order, each segment with
    row_offset = position of its first row in the page, and with the page's column widths.  Decided by interpreting
    the function on mock pages with internal group boundaries, over every valuation of the configuration it reads."""
    pm = ctx.pm
    fi = pm.func("PageRenderer._render_body")
    params = [a.arg for a in fi.node.args.args]
    scenario_note(ctx, rule, "PageRenderer._render_body", "for every cell content and every heading value",
                  {"page layouts (rows, boundary rows)": [(n, [b["page_relative_row"] for b in bs]) for _t, n, bs in _BODY_SCENARIOS],
                   "body configurations (new_page, pageby_row, body as list)": [(False, "column", False), (True, "column", False), (True, "first_row", False), (False, "column", True)],
                   "evaluations": 4 * len(_BODY_SCENARIOS), "columns": 2})
    if len(params) < 3:
        ctx.gap(rule, "_render_body: signature (self, document, page) not recognised")
        return
    dname, pname = params[1], params[2]
    n_ok = 0
    # configurations of the body: (new_page, pageby_row, body given as a list); concrete values, so that two differently written tests
    # of the same setting cannot be answered inconsistently
    configs = ((False, "column", False), (True, "column", False), (True, "first_row", False), (False, "column", True))
    for (title, n, bounds), (new_page, pageby_row, as_list) in [(sc_, cf) for sc_ in _BODY_SCENARIOS for cf in configs]:
        widths = [_Fr(3, 2), _Fr(4)]
        title = f"{title}; new_page={new_page}, pageby_row={pageby_row!r}{', body list' if as_list else ''}"
        body = Obj("rtf_body", cls="RTFBody", page_by=["g"], subline_by=None, group_by=None, new_page=new_page, pageby_row=pageby_row, as_colheader=True)
        page_attrs = Obj("page_attrs", cls="RTFBody")
        doc = Obj("document", cls="RTFDocument", rtf_body=[body] if as_list else body, df=Frame("table", range(40), ["g", "a", "b"]),
                  rtf_page=Obj("rtf_page", cls="RTFPage", col_width=_Fr(19, 2), width=_Fr(17, 2)))
        page = Obj("page", cls="PageContext", data=Frame("page", range(n), ["a", "b"]), group_boundaries=[dict(b) for b in bounds], col_widths=widths,
                   pageby_header_info={"group_values": {"g": "A"}}, final_body_attrs=page_attrs, table_attrs=page_attrs, is_first_page=True, is_last_page=False,
                   page_number=1, total_pages=2)
        sc = Scen(pm, markers={"_encode": "list", "encode_spanning_row": "list"})
        try:
            runs = sc.runs(fi, {params[0]: Sym("self", fi.cls), dname: doc, pname: page})
        except AnalysisError as e:
            ctx.gap(rule, f"_render_body could not be interpreted on a mock page ({title}): {e}")
            continue
        segs_seen = set()
        for val, r in runs:
            if r.raised:
                ctx.gap(rule, f"_render_body raises {r.raised} on a mock page ({title})")
                continue
            out = r.ret
            if not isinstance(out, list):
                ctx.gap(rule, f"_render_body: result `{out!r}`[:60] on a mock page is not a list of row chunks")
                continue
            encs = [m for m in out if isinstance(m, Mark) and m.name == "_encode"]
            other = [m for m in out if not (isinstance(m, Mark) and m.name in ("_encode", "encode_spanning_row"))]
            if other:
                ctx.gap(rule, f"_render_body: element `{other[0]!r}`[:60] of the result could not be traced to _encode / encode_spanning_row")
                continue
            got, unknown = [], False
            for m in encs:
                fr = m.arg(0, "df")
                if not isinstance(fr, Frame) or fr.tag != "page":
                    unknown = True
                    break
                got.extend(fr.rows)
                off = m.arg(2, "row_offset", 0)
                w = m.arg(1, "col_widths")
                segs_seen.add((tuple(fr.rows), repr(off)))
                if isinstance(off, Sym) or isinstance(w, Sym):
                    unknown = True
                    break
                if fr.rows and off != fr.rows[0]:
                    ctx.violation(rule, fi.short, f"_encode(rows {fr.rows[0]}..{fr.rows[-1]}, row_offset={off})", fi.where(),
                                  f"_render_body: a segment starting at row {fr.rows[0]} of the page is encoded with row_offset={off} ({title})")
                if w != widths:
                    ctx.violation(rule, fi.short, "_encode widths", fi.where(), f"_render_body: a body segment is not encoded with the page's column widths but with `{w!r}`")
                if fr.cols != ["a", "b"]:
                    ctx.violation(rule, fi.short, "_encode columns", fi.where(), "_render_body: a body segment does not carry the page's columns")
            if unknown:
                ctx.gap(rule, f"_render_body: an _encode call on a mock page has arguments that could not be determined ({title})")
                continue
            if got != list(range(n)):
                ctx.violation(rule, fi.short, "segments: " + _describe_rows(got, list(range(n))), fi.where(),
                              f"_render_body does not cut the page into [prev:boundary) segments plus the tail: on a page of {n} rows with boundaries at "
                              f"{[b['page_relative_row'] for b in bounds]} ({title}) {_describe_rows(got, list(range(n)))}")
            else:
                n_ok += 1
        ctx.instance(rule, fi.where(), f"_render_body on a {n}-row page, {title}: {len(runs)} configuration valuations; (rows, row_offset) handed to _encode: "
                     f"{sorted(segs_seen)[:6]}")
    if not n_ok and not ctx.deferred_errors:
        ctx.gap(rule, "_render_body: no scenario could be evaluated")


# ------------------------------------------------------------------ model construction scenarios
T_ROWS = 7          # rows of the mock table
SEG = (3, 4, 5)     # the segment handed to _encode: table rows 3..5, so row_offset = 3
SHAPES = {"matrix": (T_ROWS, 2), "row vector": (1, 2), "scalar": (1, 1)}


def _attr_default(pm, cls, shape):
    def default(name):
        if pm.find_method(cls, name) is not None or name.startswith("__"):
            return NotImplemented
        return matrix(name, *shape)
    return default


def expected_entry(name, shape, i, j):
    """BroadcastValue's documented rule: value[r % R][c % C]"""
    return AV(name, i % shape[0], j % shape[1])


def model_fields(o, want_cls):
    """{field: value} of a constructed model object (None if it is not one)"""
    if isinstance(o, Obj) and o.cls == want_cls:
        return o.attrs
    return None


def encode_scenarios(pm):
    """interpret TableAttributes._encode on a 3-row segment (table rows 3..5, row_offset=3) of a 7-row, 2-column table whose
    attribute entries are all distinguishable; three attribute shapes x (cell_nrow unset/set).
    -> list of dicts {shape, nrow_set, error | rows: [Row Obj...], df, widths, other}"""
    cached = getattr(pm, "_encode_scenarios", None)
    if cached is not None:
        return cached
    fi = pm.func("TableAttributes._encode")
    params = [a.arg for a in fi.node.args.args]
    out = []
    for shape_name, shape in SHAPES.items():
        for nrow_set in (False, True):
            df = Frame("df", SEG, ["a", "b"], dtypes={"a": "str", "b": "num"}, nulls={(4, "a"), (5, "b")})
            widths = [_Fr(3, 2), _Fr(4)]
            me = Obj("self", cls="TableAttributes", default=_attr_default(pm, "TableAttributes", shape))
            me.attrs["cell_nrow"] = [[1.0, 1.0] for _ in SEG] if nrow_set else None
            rec = {"shape": shape_name, "dims": shape, "nrow_set": nrow_set, "df": df, "widths": widths, "fi": fi}
            out.append(rec)
            if len(params) < 3:
                rec["error"] = "signature (self, df, col_widths, row_offset) not recognised"
                continue
            args = {params[0]: me, params[1]: df, params[2]: widths}
            if "row_offset" in params:
                args["row_offset"] = SEG[0]
            else:
                rec["no_offset"] = True
            sc = Scen(pm, markers={"_as_rtf": "list", "calculate_lines": "scalar"})
            try:
                runs = sc.runs(fi, args)
            except AnalysisError as e:
                rec["error"] = str(e)
                continue
            if len(runs) != 1:
                rec["error"] = f"{len(runs)} paths depend on conditions the scenario does not determine: {sorted(runs[-1][0])[:3]}"
                continue
            r = runs[0][1]
            if r.raised:
                rec["error"] = f"raises {r.raised}"
                continue
            ret = r.ret if isinstance(r.ret, list) else None
            if ret is None:
                rec["error"] = f"result `{r.ret!r}`[:40] is not a list"
                continue
            rec["rows"] = [m.recv for m in ret if isinstance(m, Mark) and m.name == "_as_rtf" and isinstance(m.recv, Obj) and m.recv.cls == "Row"]
            rec["other"] = [m for m in ret if not (isinstance(m, Mark) and m.name == "_as_rtf" and isinstance(m.recv, Obj) and m.recv.cls == "Row")]
    pm._encode_scenarios = out
    return out


def text_scenarios(pm):
    """TextAttributes._encode_text on three text rows, methods paragraph / line -> [{shape, method, error | texts: [TextContent Obj]}]"""
    cached = getattr(pm, "_text_scenarios", None)
    if cached is not None:
        return cached
    fi = pm.func("TextAttributes._encode_text")
    params = [a.arg for a in fi.node.args.args]
    out = []
    for shape_name, shape in (("matrix", (3, 1)), ("scalar", (1, 1))):
        for method in ("paragraph", "line"):
            rec = {"shape": shape_name, "dims": shape, "method": method, "fi": fi}
            out.append(rec)
            if len(params) < 3:
                rec["error"] = "signature (self, text, method) not recognised"
                continue
            me = Obj("self", cls="TextAttributes", default=_attr_default(pm, "TextAttributes", shape))
            sc = Scen(pm, markers={"_as_rtf": "scalar"})
            try:
                runs = sc.runs(fi, {params[0]: me, params[1]: ["t0", "t1", "t2"], params[2]: method})
            except AnalysisError as e:
                rec["error"] = str(e)
                continue
            if len(runs) != 1 or runs[0][1].raised:
                rec["error"] = f"{len(runs)} paths / raised {runs[0][1].raised if runs else None}"
                continue
            rec["texts"] = [m.recv for m in runs[0][1].trace if m.name == "new" and m.recv.cls == "TextContent"]
            rec["ret"] = runs[0][1].ret
    pm._text_scenarios = out
    return out


def spanning_scenarios(pm):
    """RTFEncodingService.encode_spanning_row for column 1 of a body with matrix / scalar attributes -> [{shape, error | row: Row Obj}]"""
    cached = getattr(pm, "_spanning_scenarios", None)
    if cached is not None:
        return cached
    fi = pm.func("RTFEncodingService.encode_spanning_row")
    params = [a.arg for a in fi.node.args.args]
    out = []
    for shape_name, shape in (("matrix", (T_ROWS, 3)), ("scalar", (1, 1))):
        rec = {"shape": shape_name, "dims": shape, "fi": fi, "width": _Fr(13, 2), "col": 1}
        out.append(rec)
        need = ("text", "page_width", "rtf_body_attrs", "col_idx")
        if not all(p in params for p in need):
            rec["error"] = f"parameters {need} not recognised"
            continue
        body = Obj("rtf_body_attrs", cls="RTFBody", default=_attr_default(pm, "RTFBody", shape))
        sc = Scen(pm, markers={"_as_rtf": "list"})
        try:
            runs = sc.runs(fi, {params[0]: Sym("self", fi.cls), "text": "HEAD", "page_width": rec["width"], "rtf_body_attrs": body, "col_idx": 1})
        except AnalysisError as e:
            rec["error"] = str(e)
            continue
        if len(runs) != 1 or runs[0][1].raised:
            rec["error"] = f"{len(runs)} paths / raised {runs[0][1].raised if runs else None}"
            continue
        ret = runs[0][1].ret
        rows = [m.recv for m in (ret if isinstance(ret, list) else []) if isinstance(m, Mark) and m.name == "_as_rtf" and isinstance(m.recv, Obj) and m.recv.cls == "Row"]
        if len(rows) != 1 or len(ret) != 1:
            rec["error"] = f"result `{ret!r}`[:60] is not the RTF of exactly one table row"
            continue
        rec["row"] = rows[0]
    pm._spanning_scenarios = out
    return out


def display_text(v):
    return "" if v is None else str(v)


# ------------------------------------------------------------------ _encode index agreement
def encode_index_agreement(ctx: Ctx, rule: str) -> None:
    """TableAttributes._encode: one table row per data row, one cell per column, cell (i, j) shows df[i, j] (null -> '', else
    str(value)) and ends at col_widths[j].  Decided on the interpreted scenarios (a frame with nulls in a string and in a
    numeric column)."""
    scenario_note(ctx, rule, "TableAttributes._encode", "for every non-null cell value (nulls at one string and one numeric cell)",
                  {"segment shape": "3x2 (table rows 3..5 of 7, row_offset 3)", "attribute shapes": list(SHAPES), "cell_nrow": ["unset", "set"], "evaluations": 2 * len(SHAPES)})
    n_ok = 0
    for rec in encode_scenarios(ctx.pm):
        fi = rec["fi"]
        tag = f"{rec['shape']} attributes, cell_nrow {'set' if rec['nrow_set'] else 'unset'}"
        if "error" in rec:
            ctx.gap(rule, f"_encode could not be interpreted on the mock segment ({tag}): {rec['error']}")
            continue
        df, widths, rows = rec["df"], rec["widths"], rec["rows"]
        if rec["other"]:
            ctx.gap(rule, f"_encode: element `{rec['other'][0]!r}`[:60] of the result could not be traced to a table row")
            continue
        texts = []
        ok = True
        if len(rows) != len(df):
            ok = False
            ctx.violation(rule, fi.short, f"cell/row emission: {len(rows)} rows for {len(df)} data rows", fi.where(),
                          f"_encode emits {len(rows)} table rows for a frame of {len(df)} rows (one table row per data row expected)")
        for i, row in enumerate(rows[:len(df)]):
            cells = row.attrs.get("row_cells")
            if not isinstance(cells, (list, tuple)) or not all(isinstance(c, Obj) and c.cls == "Cell" for c in cells):
                ctx.gap(rule, f"_encode: the cells of table row {i} could not be determined")
                ok = False
                continue
            if len(cells) != len(df.cols):
                ok = False
                ctx.violation(rule, fi.short, f"cell/row emission: {len(cells)} cells for {len(df.cols)} columns", fi.where(),
                              f"_encode builds {len(cells)} cells in a row of a frame with {len(df.cols)} columns")
                continue
            want_row = df.row(i)
            for j, cell in enumerate(cells):
                tc = cell.attrs.get("text")
                got = tc.attrs.get("text") if isinstance(tc, Obj) else None
                want = display_text(want_row[j])
                texts.append(got)
                if isinstance(got, Sym) or not isinstance(tc, Obj):
                    ctx.gap(rule, f"_encode: the text of cell ({i}, {j}) could not be determined")
                    ok = False
                elif got != want:
                    ok = False
                    src = "a null value" if want_row[j] is None else f"value {want_row[j]!r} of frame cell ({i}, {j})"
                    ctx.violation(rule, fi.short, f"cell source ({i},{j}) shows {got!r}"[:120], fi.where(),
                                  f"_encode: cell ({i}, {j}) shows {got!r} for {src} (expected {want!r}: df.row(i)[j], null -> '', else str(value))")
                w = cell.attrs.get("width")
                if isinstance(w, Sym):
                    ctx.gap(rule, f"_encode: the width of cell ({i}, {j}) could not be determined")
                    ok = False
                elif w != widths[j]:
                    ok = False
                    ctx.violation(rule, fi.short, f"cell source width of column {j}", fi.where(), f"_encode: cell ({i}, {j}) ends at `{w!r}`, not at col_widths[{j}]")
        ctx.instance(rule, fi.where(), f"_encode on a 3x2 segment with nulls ({tag}): {len(rows)} rows; cell texts {texts}"[:290])
        n_ok += ok
    if not n_ok and not ctx.deferred_errors and not any(f.rule == rule for f in ctx.findings):
        ctx.gap(rule, "_encode: no scenario could be evaluated")


# ------------------------------------------------------------------ column removal
def column_removal(ctx: Ctx, rule: str) -> None:
    """prepare_dataframe_for_body_encoding returns (displayed frame, original frame, attributes cut to the displayed columns):
    the displayed frame keeps the non-grouping columns in frame order, col_rel_width and every attribute matrix lose exactly
    the entries at the ORIGINAL positions of the removed columns, and the caller's attributes are not modified.
    Decided by interpreting the function on mock frames (two removed columns at non-adjacent positions, both iteration orders
    of the set of removed columns); if the function cannot be interpreted the structural rule below is used instead."""
    pm = ctx.pm
    fi = pm.func("RTFEncodingService.prepare_dataframe_for_body_encoding")
    scenario_note(ctx, rule, "RTFEncodingService.prepare_dataframe_for_body_encoding", "for every cell content and every attribute entry",
                  {"frame shape": "4x5", "removed columns": "positions 0 and 2 (or none)", "grouping configurations": 6, "set iteration orders": 2,
                   "attribute shapes": ["4x5", "1x5", "1x1"], "evaluations": 12})
    try:
        _column_removal_scenarios(ctx, rule, fi)
    except AnalysisError as e:
        ctx.instance(rule, fi.where(), f"prepare_dataframe_for_body_encoding not interpretable ({str(e)[:120]}): structural rule applied")
        _column_removal_structural(ctx, rule)


def _column_removal_scenarios(ctx: Ctx, rule: str, fi) -> None:
    pm = ctx.pm
    ps = [a.arg for a in fi.node.args.args]
    if len(ps) != 3:
        raise AnalysisError("signature (self, df, rtf_attrs) not recognised")
    cols = ["g1", "z", "g2", "m", "a"]
    nrow = 4
    scen = (("page_by on columns 0 and 2", dict(page_by=["g1", "g2"], subline_by=None, new_page=False), ["g1", "g2"]),
            ("page_by listed against frame order", dict(page_by=["g2", "g1"], subline_by=None, new_page=False), ["g1", "g2"]),
            ("subline_by column 2 and page_by column 0", dict(page_by=["g1"], subline_by=["g2"], new_page=False), ["g1", "g2"]),
            ("new_page with page_by kept as a column", dict(page_by=["g1"], subline_by=None, new_page=True, pageby_row="column"), []),
            ("new_page with page_by shown as first row", dict(page_by=["g1", "g2"], subline_by=None, new_page=True, pageby_row="first_row"), ["g1", "g2"]),
            ("no grouping", dict(page_by=None, subline_by=None, new_page=False), []))
    shapes = {"text_font": (nrow, 5), "text_format": (1, 5), "border_left": (1, 1), "text_justification": (nrow, 5), "border_top": (1, 5)}

    def mk(conf):
        body = Obj("rtf_attrs", cls="RTFBody", default=lambda name: None)
        body.attrs.update(pageby_row="column", group_by=None, col_rel_width=[AV("col_rel_width", 0, c) for c in range(5)])
        body.attrs.update({k: matrix(k, *sh) for k, sh in shapes.items()})
        body.attrs.update(conf)
        return body

    def strip(attrs):
        return {k: v for k, v in attrs.items() if v is not None}
    n_ok = 0
    for title, conf, removed in scen:
        keep = [i for i, c in enumerate(cols) if c not in removed]
        for order in ("insertion", "reverse"):
            sc = Scen(pm, set_order=order)
            runs = sc.runs(fi, {ps[0]: Sym("self", fi.cls), ps[1]: Frame("df", range(nrow), cols), ps[2]: mk(conf)})
            if len(runs) != 1:
                raise AnalysisError(f"{len(runs)} paths depend on conditions the scenario does not determine")
            r = runs[0][1]
            if r.raised:
                ctx.violation(rule, fi.short, f"raises {r.raised}"[:80], fi.where(), f"prepare_dataframe_for_body_encoding raises {r.raised} for {title} on a frame with columns {cols}")
                continue
            ret = r.ret
            if not (isinstance(ret, tuple) and len(ret) == 3 and isinstance(ret[0], Frame) and isinstance(ret[1], Frame) and isinstance(ret[2], Obj)):
                if isinstance(ret, tuple) and len(ret) == 3 and isinstance(ret[0], Frame) and isinstance(ret[1], Frame):
                    raise AnalysisError("the returned attributes could not be determined")
                raise AnalysisError(f"result `{ret!r}`[:60] is not (frame, frame, attributes)")
            shown, orig, attrs = ret
            tag = f"{title}, set order {order}"
            ok = True
            if shown.cols == cols and orig.cols == [cols[i] for i in keep] and removed:
                ok = False
                ctx.violation(rule, fi.short, "return", fi.where(), "prepare_dataframe_for_body_encoding returns (original, reduced) instead of (reduced frame, original frame, attributes)")
                continue
            if shown.cols != [cols[i] for i in keep]:
                ok = False
                what = "the displayed columns are not taken in the frame's own column order" if sorted(shown.cols) == sorted(cols[i] for i in keep) else \
                    f"the displayed frame has columns {shown.cols}, expected {[cols[i] for i in keep]}"
                ctx.violation(rule, fi.short, "remaining columns " + str(shown.cols), fi.where(), f"{what} ({tag})")
            if orig.cols != cols or orig.rows != list(range(nrow)) or shown.rows != list(range(nrow)):
                ok = False
                ctx.violation(rule, fi.short, "frames returned", fi.where(), f"the frames returned are not (all rows x displayed columns, the original frame) ({tag}): {shown!r}, {orig!r}")
            w = attrs.attrs.get("col_rel_width")
            want_w = [AV("col_rel_width", 0, i) for i in keep]
            if w != want_w:
                ok = False
                ctx.violation(rule, fi.short, "width slicing " + repr(w)[:80], fi.where(),
                              f"col_rel_width of the displayed columns is {w!r}, expected the entries at the original positions {keep} ({tag}): widths are cut at the wrong positions")
            for k, sh in shapes.items():
                v = attrs.attrs.get(k)
                if not (isinstance(v, list) and v and all(isinstance(x, list) for x in v)):
                    raise AnalysisError(f"attribute {k} after removal is `{v!r}`[:50]")
                if sh[1] == 1:
                    good = all(x == AV(k, 0, 0) for row in v for x in row)
                elif not removed and v == matrix(k, *sh):
                    good = True
                else:
                    good = all(row == [AV(k, (ri % sh[0]), i) for i in keep] for ri, row in enumerate(v)) and (len(v) == nrow or (sh[0] == 1 and len(v) == 1))
                if not good:
                    ok = False
                    ctx.violation(rule, fi.short, f"attribute slicing {k} {sh[0]}x{sh[1]}", fi.where(),
                                  f"attribute {k} ({sh[0]}x{sh[1]}) of the displayed columns is {repr(v[0])[:90]}..., expected the entries of the original columns {keep} ({tag}): "
                                  "attribute columns are cut at the wrong positions (positions must be those of the removed columns in the ORIGINAL frame, applied to the grid expanded to the original shape)")
            before, after = strip(mk(conf).attrs), strip(sc.last_args[ps[2]].attrs)
            if removed and before != after:
                ok = False
                changed = sorted(k for k in set(before) | set(after) if before.get(k) != after.get(k))
                ctx.violation(rule, fi.short, "attrs copy", fi.where(), f"the caller's attributes are modified ({changed[:4]}): attributes are cut in place instead of on a deep copy")
            ctx.instance(rule, fi.where(), f"column removal, {tag}: displayed {shown.cols}; widths {w!r}"[:250])
            n_ok += ok
    if not n_ok and not any(f.rule == rule for f in ctx.findings):
        raise AnalysisError("no scenario could be evaluated")


def _column_removal_structural(ctx: Ctx, rule: str) -> None:
    """prepare_dataframe_for_body_encoding: the displayed frame, the attribute matrices and col_rel_width must be cut
    at the positions the removed columns have in the ORIGINAL frame.  Constructs are recognised by role (tolerant of
    container type, temporaries, helper closures, comprehension vs loop); their property-relevant attributes are then
    verified; a construct that cannot be recognised is an analysis gap, not a violation."""
    from ..astmatch import assignments, find, match, resolve, strip_wrappers
    pm = ctx.pm
    fi = pm.func("RTFEncodingService.prepare_dataframe_for_body_encoding")
    fn = fi.node
    asg = assignments(fn)
    params = [a.arg for a in fn.args.args]
    n_assign = {k: len(v) for k, v in asg.items()}

    def frame_kind(e: ast.AST) -> str:
        """'original' / 'shrinking' / '?' for an expression denoting a frame (or its column list)"""
        e = strip_wrappers(resolve(e, fn, _asg=asg))
        if isinstance(e, ast.Attribute) and e.attr == "columns":
            e = e.value
        if isinstance(e, ast.Call) and isinstance(e.func, ast.Attribute) and e.func.attr == "clone":
            e = e.func.value
        if isinstance(e, ast.Name):
            if e.id in params and n_assign.get(e.id, 0) == 0:
                return "original"
            if n_assign.get(e.id, 0) > 1:
                return "shrinking"
            if n_assign.get(e.id, 0) == 1:
                return frame_kind(asg[e.id][0])
        return "?"

    # 1. positions of removed columns
    pos_sites = []
    for n, b in find("_X.index(_C)", fn) + find("_X.get_column_index(_C)", fn):
        pos_sites.append((n, b["_X"], "lookup"))
    for n in ast.walk(fn):
        if isinstance(n, (ast.ListComp, ast.SetComp, ast.GeneratorExp)) and len(n.generators) == 1:
            g = n.generators[0]
            if isinstance(g.iter, ast.Call) and dotted(g.iter.func) == "enumerate" and g.iter.args and isinstance(g.target, ast.Tuple) and len(g.target.elts) == 2 \
                    and isinstance(n.elt, ast.Name) and isinstance(g.target.elts[0], ast.Name) and n.elt.id == g.target.elts[0].id \
                    and any("columns_to_remove" in unparse(c) for c in g.ifs):
                pos_sites.append((n, g.iter.args[0], "enumerate"))
    kinds = []
    for n, x, how in pos_sites:
        k = frame_kind(x)
        kinds.append(k)
        ctx.instance(rule, fi.where(n), f"position of a removed column ({how}) taken from `{unparse(x)}` -> {k} frame")
        if k == "shrinking":
            ctx.violation(rule, fi.short, "removed_indices " + unparse(n)[:80], fi.where(n),
                          f"positions of removed columns are looked up in `{unparse(x)}`, a frame that is re-bound while columns are dropped; with two or more "
                          "removed columns later positions shift and the wrong width/attribute entries are cut")
    if not pos_sites or all(k == "?" for k in kinds):
        ctx.gap(rule, "prepare_dataframe_for_body_encoding: how the positions of the removed columns are computed could not be re-identified")

    # 2. cuts: filter by position, or in-place deletion
    cuts = 0
    for n in ast.walk(fn):
        if isinstance(n, (ast.ListComp, ast.GeneratorExp)) and len(n.generators) == 1:
            g = n.generators[0]
            if isinstance(g.iter, ast.Call) and dotted(g.iter.func) == "enumerate" and isinstance(g.target, ast.Tuple) and len(g.target.elts) == 2 and len(g.ifs) == 1:
                i_name = g.target.elts[0].id if isinstance(g.target.elts[0], ast.Name) else None
                t = g.ifs[0]
                if i_name and isinstance(t, ast.Compare) and len(t.ops) == 1 and isinstance(t.left, ast.Name) and t.left.id == i_name \
                        and isinstance(t.ops[0], (ast.In, ast.NotIn)) and not any("columns_to_remove" in unparse(c) for c in g.ifs):
                    item_ok = isinstance(n.elt, ast.Name) and isinstance(g.target.elts[1], ast.Name) and n.elt.id == g.target.elts[1].id
                    cuts += 1
                    ctx.instance(rule, fi.where(n), f"cut by position: `{unparse(n)[:90]}`")
                    if isinstance(t.ops[0], ast.In):
                        ctx.violation(rule, fi.short, "index filters " + unparse(n)[:80], fi.where(n), "the filter keeps the entries AT the removed positions instead of dropping them")
                    elif not item_ok:
                        ctx.violation(rule, fi.short, "index filters " + unparse(n)[:80], fi.where(n), "the filter does not keep the entry itself")
    for n in ast.walk(fn):
        tgt = None
        if isinstance(n, ast.Delete) and len(n.targets) == 1 and isinstance(n.targets[0], ast.Subscript):
            tgt = n.targets[0].slice
        elif isinstance(n, ast.Call) and isinstance(n.func, ast.Attribute) and n.func.attr == "pop" and len(n.args) == 1:
            tgt = n.args[0]
        if tgt is None or not isinstance(tgt, ast.Name):
            continue
        loop = next((a for a in anc(n, fn) if isinstance(a, ast.For) and isinstance(a.target, ast.Name) and a.target.id == tgt.id), None)
        if loop is None:
            continue
        cuts += 1
        it = loop.iter
        src = resolve(it, fn, _asg=asg)
        desc = "reverse=True" in unparse(src) or (isinstance(src, ast.Call) and dotted(src.func) == "reversed")
        if isinstance(it, ast.Name):
            desc = desc or any(isinstance(c, ast.Call) and isinstance(c.func, ast.Attribute) and c.func.attr == "sort" and isinstance(c.func.value, ast.Name)
                               and c.func.value.id == it.id and "reverse=True" in unparse(c) for c in ast.walk(fn))
        ctx.instance(rule, fi.where(n), f"in-place deletion at positions from `{unparse(it)}` (descending: {desc})")
        if not desc:
            ctx.violation(rule, fi.short, "index filters in-place " + unparse(n)[:60], fi.where(n),
                          f"entries are deleted in place at positions taken from `{unparse(it)}` which is not in descending order: every deletion shifts the later positions")
    if cuts < 2:
        ctx.gap(rule, f"prepare_dataframe_for_body_encoding: only {cuts} cut(s) by position recognised (attribute rows and col_rel_width expected)")

    # 3. the displayed frame keeps the remaining columns in frame order
    sels = [c for c in ast.walk(fn) if isinstance(c, ast.Call) and isinstance(c.func, ast.Attribute) and c.func.attr in ("select", "drop")]
    if not sels:
        ctx.gap(rule, "prepare_dataframe_for_body_encoding: the reduction of the displayed frame (select/drop) could not be re-identified")
    for c in sels:
        if c.func.attr != "select" or not c.args:
            continue
        arg = resolve(c.args[0], fn, _asg=asg)
        ctx.instance(rule, fi.where(c), f"displayed frame: `{unparse(c)[:60]}` with `{unparse(arg)[:90]}`")
        if isinstance(arg, (ast.ListComp, ast.GeneratorExp)) and len(arg.generators) == 1:
            g = arg.generators[0]
            src = strip_wrappers(resolve(g.iter, fn, _asg=asg), names=("list", "tuple", "iter"))
            cond = [unparse(x) for x in g.ifs]
            if not (isinstance(src, ast.Attribute) and src.attr == "columns"):
                if isinstance(src, ast.Call) and dotted(src.func) in ("sorted", "set", "frozenset", "reversed") or isinstance(src, (ast.Set, ast.SetComp, ast.BinOp)):
                    ctx.violation(rule, fi.short, "remaining columns " + unparse(arg)[:80], fi.where(c), "the displayed columns are not taken in the frame's own column order")
                else:
                    ctx.gap(rule, f"prepare_dataframe_for_body_encoding: column source `{unparse(src)[:60]}` of the displayed frame not recognised")
            if len(cond) == 1 and match("_C in columns_to_remove", g.ifs[0]) is not None:
                ctx.violation(rule, fi.short, "remaining columns " + unparse(arg)[:80], fi.where(c), "the displayed frame keeps exactly the columns that should be removed")
            elif not (len(cond) == 1 and match("_C not in columns_to_remove", g.ifs[0]) is not None):
                ctx.gap(rule, f"prepare_dataframe_for_body_encoding: filter `{cond}` of the displayed columns not recognised")
            if not (isinstance(arg.elt, ast.Name) and isinstance(g.target, ast.Name) and arg.elt.id == g.target.id):
                ctx.gap(rule, "prepare_dataframe_for_body_encoding: displayed-column comprehension does not yield the column itself")
        else:
            ctx.gap(rule, f"prepare_dataframe_for_body_encoding: argument `{unparse(arg)[:60]}` of select not recognised")

    # 4. attribute grid is expanded to the ORIGINAL shape
    exps = find("BroadcastValue(value=_V, dimension=_D)", fn)
    if not exps:
        ctx.gap(rule, "prepare_dataframe_for_body_encoding: expansion of list attributes to the full grid (BroadcastValue(...)) not re-identified")
    for n, b in exps:
        d = b["_D"]
        srcs = []
        if isinstance(d, ast.Tuple):
            for e in d.elts:
                if isinstance(e, ast.Name):
                    # unpacked from X.shape ?
                    for a in walk_no_nested(fn):
                        if isinstance(a, ast.Assign) and isinstance(a.targets[0], (ast.Tuple, ast.List)) and any(isinstance(x, ast.Name) and x.id == e.id for x in a.targets[0].elts):
                            srcs.append(a.value)
                            break
                    else:
                        srcs.append(resolve(e, fn, _asg=asg))
                else:
                    srcs.append(resolve(e, fn, _asg=asg))
        else:
            srcs.append(resolve(d, fn, _asg=asg))
        ks = set()
        for sx in srcs:
            base = sx
            while isinstance(base, (ast.Subscript, ast.Attribute)) and not (isinstance(base, ast.Attribute) and base.attr in ("shape", "height", "width")):
                base = base.value
            if isinstance(base, ast.Attribute):
                ks.add(frame_kind(base.value))
            elif isinstance(base, ast.Call) and dotted(base.func) == "len" and base.args:
                ks.add(frame_kind(base.args[0]))
            else:
                ks.add("?")
        ctx.instance(rule, fi.where(n), f"attribute grid shape `{unparse(d)}` from {sorted(ks)} frame")
        if "shrinking" in ks:
            ctx.violation(rule, fi.short, "grid shape " + unparse(d), fi.where(n), "attributes are not expanded to the original frame's shape before columns are cut")
        elif ks != {"original"}:
            ctx.gap(rule, f"prepare_dataframe_for_body_encoding: source of the grid shape `{unparse(d)}` not recognised")

    # 5. cuts are applied to a deep copy of the caller's attributes
    stores = []
    for n in ast.walk(fn):
        if isinstance(n, ast.Call) and dotted(n.func) == "setattr" and n.args and isinstance(n.args[0], ast.Name):
            stores.append((n, n.args[0].id))
        elif isinstance(n, (ast.Assign, ast.AugAssign)):
            for t in (n.targets if isinstance(n, ast.Assign) else [n.target]):
                if isinstance(t, ast.Attribute) and isinstance(t.value, ast.Name) and t.value.id not in ("self",):
                    stores.append((n, t.value.id))
    if not stores:
        ctx.gap(rule, "prepare_dataframe_for_body_encoding: no store of a cut attribute recognised")
    for n, name in stores:
        vals = asg.get(name, [])
        texts = [unparse(v) for v in vals]
        deep = [t for t in texts if "model_copy(deep=True)" in t or "deepcopy(" in t]
        alias = [t for t in texts if t in params or t.endswith(".model_copy()") or t.startswith("copy.copy(")]
        ctx.instance(rule, fi.where(n), f"attribute store on `{name}` bound to {texts}")
        if name in params or (alias and not deep):
            ctx.violation(rule, fi.short, "attrs copy", fi.where(n), f"attributes are cut in place on `{name}` (the caller's object or a shallow copy of it) instead of on a deep copy")
        elif not deep:
            ctx.gap(rule, f"prepare_dataframe_for_body_encoding: origin of `{name}` not recognised")

    # 6. result: (reduced frame, original frame, reduced attributes)
    rets = [r for r in walk_no_nested(fn) if isinstance(r, ast.Return)]
    for r in rets:
        v = r.value
        if not (isinstance(v, ast.Tuple) and len(v.elts) == 3):
            ctx.gap(rule, f"prepare_dataframe_for_body_encoding: `{unparse(r)[:60]}` is not a triple")
            continue
        k0, k1 = frame_kind(v.elts[0]), frame_kind(v.elts[1])
        ctx.instance(rule, fi.where(r), f"returns ({unparse(v.elts[0])}: {k0}, {unparse(v.elts[1])}: {k1}, {unparse(v.elts[2])})")
        if k0 == "original" and k1 == "shrinking":
            ctx.violation(rule, fi.short, "return", fi.where(r), "prepare_dataframe_for_body_encoding returns (original, reduced) instead of (reduced frame, original frame, attributes)")


def body_section_scenarios(pm):
    """interpret UnifiedRTFEncoder._encode_body_section for a single body whose page_by column was removed (3 pages), with and
    without relative widths, and with an empty pagination result -> [{title, error | ret, trace, ...}]"""
    cached = getattr(pm, "_body_section_scenarios", None)
    if cached is not None:
        return cached
    fi = pm.func("UnifiedRTFEncoder._encode_body_section")
    ps = [a.arg for a in fi.node.args.args]
    out = []
    cols = ["g", "a", "b"]
    for title, with_widths, n_pages in (("relative widths set, 3 pages", True, 3), ("no relative widths, 3 pages", False, 3), ("pagination returns no page", True, 0)):
        rec = {"title": title, "fi": fi, "with_widths": with_widths, "n_pages": n_pages, "W": _Fr(19, 2)}
        out.append(rec)
        if len(ps) != 4:
            rec["error"] = "signature (self, document, df, rtf_body) not recognised"
            continue
        orig = Frame("original", range(6), cols)
        red = Frame("reduced", range(6), ["a", "b"])
        attrs = Obj("processed_attrs", cls="RTFBody", col_rel_width=[AV("w", 0, 1), AV("w", 0, 2)] if with_widths else None, page_by=["g"], subline_by=None, group_by=None)
        body = Obj("rtf_body", cls="RTFBody", col_rel_width=[AV("w", 0, 0), AV("w", 0, 1), AV("w", 0, 2)] if with_widths else None, page_by=["g"], subline_by=None, group_by=None)
        pages = [Obj(f"page{k}", cls="PageContext", data=Frame("original", range(2 * k, 2 * k + 2), cols)) for k in range(n_pages)]
        # the table width is deliberately larger than the printable width: any clamp / recomputation from other page settings shows
        doc = Obj("document", cls="RTFDocument", rtf_body=body, df=orig,
                  rtf_page=Obj("rtf_page", cls="RTFPage", col_width=rec["W"], width=_Fr(17, 2), height=_Fr(11), margin=[1.25, 1, 1.75, 1.25, 1.75, 1.00625], orientation="portrait"))
        markers = {"prepare_dataframe_for_body_encoding": lambda m, red=red, orig=orig, attrs=attrs: (red, orig, attrs), "get": "scalar",
                   "paginate": lambda m, pages=pages: list(pages), "_col_widths": "scalar", "calculate_additional_rows_per_page": "scalar",
                   "_apply_data_post_processing": "scalar", "render": "list",
                   "process": lambda m: Obj("processed(" + (m.args[1].name if len(m.args) > 1 and isinstance(m.args[1], Obj) else "?") + ")", cls="PageContext", src=m.args[1] if len(m.args) > 1 else None)}
        sc = Scen(pm, markers=markers)
        df_in = Frame("df", range(6), cols)
        rec.update(df_in=df_in, orig=orig, red=red, attrs=attrs, body=body)
        try:
            runs = sc.runs(fi, {ps[0]: Sym("self", fi.cls), ps[1]: doc, ps[2]: df_in, ps[3]: body})
        except AnalysisError as e:
            rec["error"] = str(e)
            continue
        if len(runs) != 1 or runs[0][1].raised:
            rec["error"] = f"{len(runs)} paths / raises {runs[0][1].raised if runs else None}"
            continue
        rec["ret"], rec["trace"] = runs[0][1].ret, runs[0][1].trace
    pm._body_section_scenarios = out
    return out


def body_section_widths(ctx: Ctx, rule: str) -> None:
    """_encode_body_section: the column boundaries of the data rows are Utils._col_widths(relative widths of the DISPLAYED columns,
    rtf_page.col_width) and that result is what pagination and rendering receive.  Decided on the interpreted scenarios; the
    structural rule is the fallback when the function cannot be interpreted."""
    recs = body_section_scenarios(ctx.pm)
    scenario_note(ctx, rule, "UnifiedRTFEncoder._encode_body_section", "for every relative width entry (table width fixed at 9.5 in on an 8.5 in page)",
                  {"frame": "6x3 with one page_by column removed", "pages": [3, 0], "relative widths": ["set", "unset"], "evaluations": 3})
    if any("error" in r for r in recs):
        fi = recs[0]["fi"]
        ctx.instance(rule, fi.where(), f"_encode_body_section not interpretable ({[r['error'] for r in recs if 'error' in r][0][:120]}): structural rule applied")
        _body_section_widths_structural(ctx, rule)
        return
    for rec in recs:
        fi = rec["fi"]
        calls = [m for m in rec["trace"] if m.name == "_col_widths"]
        news = {m.recv.cls: m for m in rec["trace"] if m.name == "new"}
        carrier = news.get("PaginationContext") if rec["n_pages"] else news.get("PageContext")
        passed = carrier.kw.get("col_widths") if carrier is not None else None
        ctx.instance(rule, fi.where(), f"_encode_body_section ({rec['title']}): {[repr(c)[:80] for c in calls]} -> col_widths of {carrier.recv.cls if carrier else '?'}")
        if carrier is None:
            ctx.gap(rule, f"_encode_body_section ({rec['title']}): the pagination context / fallback page could not be re-identified")
            continue
        if not (isinstance(passed, Mark) and passed.name == "_col_widths"):
            ctx.violation(rule, fi.short, "widths not passed", fi.where(), f"`col_widths={passed!r}`[:80] handed to pagination/rendering is not the result of Utils._col_widths ({rec['title']})")
            continue
        rel, w = passed.arg(0, "rel_widths"), passed.arg(1, "col_width")
        if isinstance(w, Sym) or isinstance(rel, Sym):
            ctx.gap(rule, f"_encode_body_section ({rec['title']}): arguments of Utils._col_widths could not be determined")
            continue
        if w != rec["W"]:
            ctx.violation(rule, fi.short, "table width " + repr(w)[:60], fi.where(),
                          f"data rows are laid out in a table width of {float(w) if isinstance(w, (int, float, _Fr)) else w!r} for rtf_page.col_width = {float(rec['W'])} "
                          "(page width 8.5, margins 1.25/1): not the configured rtf_page.col_width that every other row uses")
        want = [AV("w", 0, 1), AV("w", 0, 2)] if rec["with_widths"] else [1, 1]
        if rel != want:
            ctx.violation(rule, fi.short, "relative widths " + repr(rel)[:80], fi.where(),
                          f"data column widths are computed from {rel!r}, not from the reduced (displayed) attributes/frame: expected {want!r} ({rec['title']})")


def body_section_order(ctx: Ctx, rule: str) -> None:
    """_encode_body_section: pagination works on the original frame, page data is re-cut from the reduced frame, and every
    page is processed and rendered exactly once, in page order, the chunks concatenated in that order"""
    scenario_note(ctx, rule, "UnifiedRTFEncoder._encode_body_section", "for every page content",
                  {"frame": "6x3 with one page_by column removed", "pages": [3, 0], "relative widths": ["set", "unset"], "evaluations": 3})
    for rec in body_section_scenarios(ctx.pm):
        fi = rec["fi"]
        if "error" in rec:
            ctx.gap(rule, f"_encode_body_section could not be interpreted ({rec['title']}): {rec['error']}")
            continue
        tr = rec["trace"]
        prep = [m for m in tr if m.name == "prepare_dataframe_for_body_encoding"]
        ok_prep = len(prep) == 1 and len(prep[0].args) == 2 and isinstance(prep[0].args[0], Frame) and prep[0].args[0].tag == "df" and isinstance(prep[0].args[1], Obj) and prep[0].args[1].name == "rtf_body"
        if not ok_prep:
            ctx.violation(rule, fi.short, "frames: prepare", fi.where(), f"the section's own frame and body are not what prepare_dataframe_for_body_encoding receives: {prep!r}"[:200])
        ret = rec["ret"]
        if not isinstance(ret, list) or not all(isinstance(m, Mark) and m.name == "render" for m in ret):
            ctx.gap(rule, f"_encode_body_section ({rec['title']}): result `{ret!r}`[:60] could not be traced to renderer.render calls")
            continue
        rendered = []
        for m in ret:
            pg = m.args[1] if len(m.args) > 1 else m.kw.get("page")
            src = pg.attrs.get("src") if isinstance(pg, Obj) and "src" in pg.attrs else pg
            rendered.append(src.name if isinstance(src, Obj) else repr(src))
        want = [f"page{k}" for k in range(rec["n_pages"])]
        ctx.instance(rule, fi.where(), f"_encode_body_section ({rec['title']}): pages rendered (after feature processing) {rendered}")
        if rec["n_pages"]:
            if rendered != want:
                ctx.violation(rule, fi.short, "page loop", fi.where(), f"pages are not rendered in page order and concatenated: pages {want} are rendered as {rendered}")
            if any(not (isinstance(m.args[1], Obj) and "src" in m.args[1].attrs) for m in ret if len(m.args) > 1):
                ctx.violation(rule, fi.short, "page loop: unprocessed page", fi.where(), "a page is rendered without the feature processor's result (borders) for that page")
            pc = [m for m in tr if m.name == "new" and m.recv.cls == "PaginationContext"]
            post = [m for m in tr if m.name == "_apply_data_post_processing"]
            df_ok = len(pc) == 1 and isinstance(pc[0].kw.get("df"), Frame) and pc[0].kw["df"].tag == "original"
            post_ok = len(post) == 1 and len(post[0].args) >= 2 and isinstance(post[0].args[1], Frame) and post[0].args[1].tag == "reduced" and \
                isinstance(post[0].args[0], list) and [p.name for p in post[0].args[0] if isinstance(p, Obj)] == want
            ctx.instance(rule, fi.where(), f"pagination on the original frame: {df_ok}; page data re-cut from the reduced frame: {post_ok}")
            if not (df_ok and post_ok):
                ctx.violation(rule, fi.short, "frames", fi.where(), "pagination/rendering no longer use (original frame for grouping, reduced frame for display) consistently: "
                              f"PaginationContext.df = {pc[0].kw.get('df') if pc else None!r}, _apply_data_post_processing{tuple(post[0].args[1:2]) if post else '()'!r}"[:300])
        else:
            pg = ret[0].args[1] if len(ret) == 1 and len(ret[0].args) > 1 else None
            src = pg.attrs.get("src") if isinstance(pg, Obj) else None
            data = src.attrs.get("data") if isinstance(src, Obj) else None
            if len(ret) != 1 or not (isinstance(data, Frame) and data.tag == "reduced" and data.rows == list(range(6))):
                ctx.violation(rule, fi.short, "page loop: fallback page", fi.where(), f"when pagination yields no page the whole displayed frame is not rendered as one page (rendered: {rendered}, data {data!r})")


def _body_section_widths_structural(ctx: Ctx, rule: str) -> None:
    """_encode_body_section: widths of the displayed columns come from the reduced attributes and the page's col_width.
    Temporaries and if/else arms are expanded; a width built from anything but rtf_page.col_width (with the 8.5
    default) is a violation, an expression that cannot be read is an analysis gap."""
    from ..astmatch import alternatives, leaves
    pm = ctx.pm
    fi = pm.func("UnifiedRTFEncoder._encode_body_section")
    fn = fi.node
    calls = [c for c in walk_no_nested(fn) if isinstance(c, ast.Call) and dotted(c.func).endswith("_col_widths")]
    if not calls:
        ctx.gap(rule, "_encode_body_section: no call of Utils._col_widths recognised")
    for c in calls:
        if len(c.args) < 2:
            ctx.gap(rule, f"_encode_body_section: `{unparse(c)[:60]}` arguments not recognised")
            continue
        w_alts = alternatives(c.args[1], fn)
        any_page = any("document.rtf_page.col_width" in leaves(w) for w in w_alts)
        for w in w_alts:
            wt = unparse(w)
            lv = set(leaves(w))
            arith = any(isinstance(n, (ast.BinOp,)) for n in ast.walk(w))
            call = [dotted(n.func) for n in ast.walk(w) if isinstance(n, ast.Call)]
            ok = lv <= {"document.rtf_page.col_width", "8.5", "None"} and any_page and not arith and not call
            ctx.instance(rule, fi.where(c), f"_encode_body_section: table width `{wt[:100]}`")
            if ok:
                continue
            foreign = [x for x in lv if x.startswith("document.") and x != "document.rtf_page.col_width"]
            if foreign or arith or any(f in ("min", "max", "sum") for f in call):
                ctx.violation(rule, fi.short, "table width " + wt[:80], fi.where(c),
                              f"data rows are laid out in `{wt[:120]}` instead of the configured rtf_page.col_width that every other row uses")
            else:
                ctx.gap(rule, f"_encode_body_section: table width `{wt[:80]}` could not be traced to rtf_page.col_width")
        for r in alternatives(c.args[0], fn):
            rt = unparse(r)
            ok = rt in ("processed_attrs.col_rel_width", "[1] * processed_df.shape[1]", "[1] * processed_df.width", "[1] * len(processed_df.columns)")
            ctx.instance(rule, fi.where(c), f"_encode_body_section: relative widths `{rt[:100]}`")
            if ok:
                continue
            lv = leaves(r)
            if any(x.endswith("col_rel_width") and not x.startswith("processed_attrs.") for x in lv) or any(x.startswith(("original_df", "df.")) for x in lv):
                ctx.violation(rule, fi.short, "relative widths " + rt[:80], fi.where(c), f"data column widths come from `{rt[:100]}`, not from the reduced (displayed) attributes/frame")
            else:
                ctx.gap(rule, f"_encode_body_section: relative widths `{rt[:80]}` not recognised")
    passed = [k for n in walk_no_nested(fn) if isinstance(n, ast.Call) for k in n.keywords if k.arg == "col_widths"]
    if not passed:
        ctx.gap(rule, "_encode_body_section: the computed column widths are not seen being handed to pagination/rendering (col_widths=...)")
    for k in passed:
        vals = {unparse(v) for v in alternatives(k.value, fn)}
        if not any("_col_widths(" in v for v in vals):
            ctx.violation(rule, fi.short, "widths not passed", fi.where(), f"`col_widths={unparse(k.value)}` handed to pagination/rendering is not the result of Utils._col_widths")


def broadcast_expansion(ctx: Ctx, rule: str) -> None:
    """BroadcastValue.to_list tiles the stored block up to the requested shape: entry (r, c) of the result is
    value[r % R][c % C], the result has exactly the requested shape, and its rows are fresh lists (a later per-page border
    update writes single cells into them).  Decided by interpreting to_list on blocks that do and do not divide the shape."""
    pm = ctx.pm
    fi = pm.func("BroadcastValue.to_list")
    ps = [a.arg for a in fi.node.args.args]
    cases = [((2, 2), (5, 3)), ((1, 1), (4, 3)), ((1, 3), (4, 3)), ((3, 1), (7, 2)), ((6, 3), (4, 3)), ((4, 3), (4, 3)), ((3, 2), (3, 5)), ((2, 4), (5, 3))]
    scenario_note(ctx, rule, "BroadcastValue.to_list", "for every entry of the block", {"(block shape, requested shape)": cases, "evaluations": len(cases)})
    short_rows, short_cols, wrong, alias, n = [], [], [], [], 0
    for blk, dim in cases:
        me = Obj("bv", cls="BroadcastValue", value=matrix("m", *blk), dimension=dim)
        stored = me.attrs["value"]
        sc = Scen(pm)
        try:
            runs = sc.runs(fi, {ps[0]: me})
        except AnalysisError as e:
            ctx.gap(rule, f"BroadcastValue.to_list could not be interpreted on a {blk[0]}x{blk[1]} block: {e}")
            return
        if len(runs) != 1:
            ctx.gap(rule, "BroadcastValue.to_list depends on conditions the scenario does not determine")
            return
        r = runs[0][1]
        n += 1
        tag = f"{blk[0]}x{blk[1]} block to {dim[0]}x{dim[1]}"
        if r.raised:
            wrong.append(f"{tag}: raises {r.raised}")
            continue
        out = r.ret
        if not isinstance(out, list) or not all(isinstance(x, list) for x in out):
            ctx.gap(rule, f"BroadcastValue.to_list: result `{out!r}`[:60] is not a list of rows")
            return
        if len(out) < dim[0]:
            short_rows.append(f"{tag}: {len(out)} rows")
        elif any(len(x) < dim[1] for x in out):
            short_cols.append(f"{tag}: rows of {min(len(x) for x in out)} columns")
        elif len(out) != dim[0] or any(len(x) != dim[1] for x in out):
            wrong.append(f"{tag}: result is {len(out)}x{len(out[0]) if out else 0}")
        else:
            miss = [(i, j) for i in range(dim[0]) for j in range(dim[1]) if out[i][j] != expected_entry("m", blk, i, j)]
            if miss:
                i, j = miss[0]
                wrong.append(f"{tag}: entry ({i}, {j}) is {out[i][j]!r}, expected {expected_entry('m', blk, i, j)!r}")
        ids = [id(x) for x in out]
        if len(set(ids)) != len(ids):
            alias.append(f"{tag}: the same list object is returned for several rows")
        used = sc.last_args[ps[0]].attrs.get("value")           # the receiver the run worked on (arguments are copied per run)
        if isinstance(used, list) and any(x is y for x in out for y in used):
            alias.append(f"{tag}: rows of the stored value itself are returned")
    ctx.instance(rule, fi.where(), f"BroadcastValue.to_list on {n} (block, shape) pairs: entry (r, c) = block[r % R][c % C], exact shape: {not (short_rows or short_cols or wrong)}; fresh rows: {not alias}")
    for name, lst in (("row_repeats", short_rows), ("col_repeats", short_cols)):
        if lst:
            ctx.violation(rule, fi.short, f"{name} too small", fi.where(),
                          f"BroadcastValue.to_list tiles the block too short ({lst[0]}): the repeat count must be ceil(dimension/block) = (dimension + block - 1) // block; "
                          "a block that does not divide the table is tiled too short and a later per-page border update indexes past the end (IndexError during rtf_encode)")
    if wrong:
        ctx.violation(rule, fi.short, "tiling/cut", fi.where(), "BroadcastValue.to_list no longer tiles the block (entry (r, c) = block[r % R][c % C]) and cuts the result to exactly dimension[0] x dimension[1]: " + wrong[0])
    if alias:
        ctx.violation(rule, fi.short, "aliased rows", fi.where(), "BroadcastValue.to_list returns rows that are shared list objects (" + alias[0] + "); writing one cell's border into the expansion then changes other rows / the stored attribute, on every page")


# =====================================================================================================
# Scenario execution: a function of the table pipeline is interpreted (sa/dtab.py: the syntax tree is
# evaluated, nothing of the repository is imported or run) on a small mock table whose rows, columns,
# widths and attribute entries are all distinguishable.  What the function *does* with them (which rows
# it hands on, with which offset, which attribute entry reaches which cell) is then compared with the
# property.  This is independent of statement shape, local names, helper extraction, guard clauses,
# loop/comprehension form...  A construct outside the interpreter's subset is an analysis gap.
# =====================================================================================================
from fractions import Fraction as _Fr

from ..dtab import DT, NeedAtom, Sym, Unsupported, _Raise


class Frame:
    """mock of a polars DataFrame: an ordered window of row ids over named, typed columns"""

    def __init__(self, tag, rows, cols, dtypes=None, nulls=(), filled=None):
        self.tag, self.rows, self.cols = tag, list(rows), list(cols)
        self.dtypes = dict(dtypes or {})
        self.nulls = frozenset(nulls)
        self.filled = dict(filled or {})

    def derive(self, **kw):
        d = dict(tag=self.tag, rows=self.rows, cols=self.cols, dtypes=self.dtypes, nulls=self.nulls, filled=self.filled)
        d.update(kw)
        return Frame(**d)

    def value(self, r, c):
        if (r, c) in self.nulls:
            return self.filled.get(c)
        if self.dtypes.get(c, "str") == "num":
            return 1000 * (r + 1) + self.cols.index(c) if c in self.cols else 1000 * (r + 1)
        return f"{self.tag}<{r},{c}>"

    def row(self, i):
        return tuple(self.value(self.rows[i], c) for c in self.cols)

    def __len__(self):
        return len(self.rows)

    def __bool__(self):
        return True

    def __repr__(self):
        return f"<{self.tag} rows={self.rows} cols={self.cols}>"


class Obj:
    """mock object: a bag of attributes (optionally an instance of a repository class whose methods are interpreted)"""

    def __init__(self, name, cls=None, default=None, **attrs):
        self.name, self.cls, self.default, self.attrs = name, cls, default, dict(attrs)

    def __repr__(self):
        return f"<{self.cls or 'obj'} {self.name}>"


class AV:
    """a distinguishable attribute entry: (attribute name, row, column) of the matrix it was taken from"""
    __slots__ = ("name", "r", "c")

    def __init__(self, name, r, c):
        self.name, self.r, self.c = name, r, c

    def __eq__(self, o):
        return isinstance(o, AV) and (self.name, self.r, self.c) == (o.name, o.r, o.c)

    def __hash__(self):
        return hash((self.name, self.r, self.c))

    def __repr__(self):
        return f"{self.name}[{self.r}][{self.c}]"


class Mark:
    """result of a call that is not interpreted (an emitter or an external service): callee, receiver, arguments"""

    def __init__(self, name, recv, args, kw):
        self.name, self.recv, self.args, self.kw = name, recv, list(args), dict(kw)

    def arg(self, i, name=None, default=None):
        if name is not None and name in self.kw:
            return self.kw[name]
        return self.args[i] if i is not None and i < len(self.args) else default

    def __repr__(self):
        return f"«{self.name}({', '.join([repr(a) for a in self.args] + [f'{k}={v!r}' for k, v in self.kw.items()])})»"

    __str__ = __repr__


class Splat:
    """`acc.extend(x)` where x is not a concrete sequence"""

    def __init__(self, v):
        self.v = v

    def __repr__(self):
        return f"*{self.v!r}"


class MSet:
    """mock of a set: membership semantics of a set, iteration in insertion order or (order='reverse') in the opposite
    order - a Python set of strings iterates in an arbitrary order, so code must be right for both"""

    def __init__(self, items=(), order="insertion"):
        self.items, self.order = [], order
        for x in items:
            self.add(x)

    def add(self, x):
        if x not in self.items:
            self.items.append(x)

    def update(self, *others):
        for o in others:
            for x in (o.seq() if isinstance(o, MSet) else list(o)):
                self.add(x)

    def discard(self, x):
        if x in self.items:
            self.items.remove(x)

    def remove(self, x):
        if x not in self.items:
            raise KeyError(x)
        self.items.remove(x)

    def seq(self):
        return list(self.items) if self.order == "insertion" else list(reversed(self.items))

    def copy(self):
        return MSet(self.items, self.order)

    def __contains__(self, x):
        return x in self.items

    def __len__(self):
        return len(self.items)

    def __iter__(self):
        return iter(self.seq())

    def __eq__(self, o):
        return isinstance(o, MSet) and sorted(map(repr, self.items)) == sorted(map(repr, o.items))

    def __hash__(self):
        return 0

    def __repr__(self):
        return "{" + ", ".join(repr(x) for x in self.seq()) + "}"


class TypeOf:
    def __init__(self, obj):
        self.obj = obj


def matrix(name, nrow, ncol):
    return [[AV(name, r, c) for c in range(ncol)] for r in range(nrow)]


def nested_list_form(v):
    """model of attributes._to_nested_list (BroadcastValue's `value` validator)"""
    if v is None or isinstance(v, Sym):
        return v
    if isinstance(v, Frame):
        return [list(v.row(i)) for i in range(len(v))]
    if isinstance(v, tuple):
        return [[x] for x in v]
    if isinstance(v, list):
        if all(isinstance(x, list) for x in v):
            return v
        return [v]
    return [[v]]


class Scen(DT):
    """dtab interpreter extended with mock frames/objects, concrete comprehensions, record-keeping constructors and
    uninterpreted `marker` calls.  markers: {method name: 'list' | 'scalar'}"""

    def __init__(self, pm, markers=None, fixed=None, frame_passthrough=(), set_order="insertion", **kw):
        super().__init__(pm, **kw)
        self.set_order = set_order
        self.markers = dict(markers or {})
        self.fixed_src = dict(fixed or {})
        self.fixed = {}
        self.frame_passthrough = set(frame_passthrough)
        self.trace = []

    # ---- runs
    def run(self, fi, args, valuation):
        import copy
        self.fixed = copy.deepcopy(self.fixed_src)
        self.trace = []
        self.last_args = copy.deepcopy(args)
        r = super().run(fi, self.last_args, valuation)
        r.trace = self.trace
        return r

    def runs(self, fi, args, limit=512):
        """[(valuation, Run)] over every valuation of the undetermined conditions; Unsupported if outside the subset"""
        try:
            return self.table(fi, args, limit=limit)
        except (Unsupported, NeedAtom):
            raise
        except RecursionError as e:
            raise Unsupported(f"recursion while interpreting {fi.short}") from e
        except (TypeError, ValueError, KeyError, IndexError, AttributeError, ZeroDivisionError) as e:
            raise Unsupported(f"{fi.short}: operation outside the interpreter's model ({type(e).__name__}: {str(e)[:80]})") from e

    # ---- values
    def concrete(self, v):
        if isinstance(v, Sym) and v.path in self.fixed and v.path not in self.stores:
            return self.fixed[v.path]
        return super().concrete(v)

    def truth(self, v):
        v = self.concrete(v)
        if isinstance(v, (Frame, Obj, AV, Mark)):
            return True
        return super().truth(v)

    def _fix(self, v):
        if isinstance(v, Sym) and v.path in self.fixed and v.path not in self.stores:
            return self.fixed[v.path]
        return v

    def ev_Name(self, n, env):
        return self._fix(super().ev_Name(n, env))

    def _with_base(self, base, env, fn):
        old = env.get("__base__", self)
        env["__base__"] = base
        try:
            return fn(ast.Name(id="__base__", ctx=ast.Load()))
        finally:
            if old is self:
                env.pop("__base__", None)
            else:
                env["__base__"] = old

    def ev_Attribute(self, n, env):
        base = self.ev(n.value, env)
        return self.attr_of(base, n.attr, n, env)

    def attr_of(self, base, attr, n, env):
        if isinstance(base, Obj):
            if attr in base.attrs:
                return base.attrs[attr]
            if base.default is not None:
                v = base.default(attr)
                if v is not NotImplemented:
                    base.attrs[attr] = v
                    return v
            if base.cls and self.pm.find_method(base.cls, attr):
                return ("bound", base, attr)
            return self._fix(Sym(f"{base.name}.{attr}"))
        if isinstance(base, TypeOf):
            o = base.obj
            if attr == "model_fields" and isinstance(o, Obj) and o.cls:
                return {f: None for f in self.pm.all_fields(o.cls)}
            if attr == "__name__" and isinstance(o, Obj) and o.cls:
                return o.cls
            raise Unsupported(f"type(...).{attr}")
        if isinstance(base, MSet):
            return ("method", base, attr)
        if isinstance(base, Frame):
            if attr == "shape":
                return (len(base.rows), len(base.cols))
            if attr == "height":
                return len(base.rows)
            if attr == "width":
                return len(base.cols)
            if attr == "columns":
                return list(base.cols)
            return ("framemethod", base, attr)
        if isinstance(base, (list, tuple, dict, str, Mark, AV, int, float, _Fr)) and not (isinstance(base, tuple) and len(base) == 2 and base[0] in ("class", "func")):
            if isinstance(base, dict) and attr in ("get", "items", "keys", "values", "copy", "update"):
                return ("dictmethod", base, attr)
            return ("method", base, attr)
        node = ast.Attribute(value=None, attr=attr, ctx=ast.Load())

        def go(nm):
            node.value = nm
            return super(Scen, self).ev_Attribute(node, env)
        return self._fix(self._with_base(base, env, go))

    def ev_Subscript(self, n, env):
        base = self.concrete(self.ev(n.value, env))
        if isinstance(base, Frame):
            if isinstance(n.slice, ast.Slice):
                lo = self.concrete(self.ev(n.slice.lower, env)) if n.slice.lower else None
                hi = self.concrete(self.ev(n.slice.upper, env)) if n.slice.upper else None
                st = self.concrete(self.ev(n.slice.step, env)) if n.slice.step else None
                if any(isinstance(x, Sym) for x in (lo, hi, st)):
                    raise Unsupported("frame slice with undetermined bounds: " + unparse(n))
                return base.derive(rows=base.rows[lo:hi:st])
            k = self.concrete(self.ev(n.slice, env))
            if isinstance(k, tuple) and len(k) == 2 and all(isinstance(x, int) for x in k):
                return base.value(base.rows[k[0]], base.cols[k[1]])
            raise Unsupported("frame subscript " + unparse(n))

        def go(nm):
            return super(Scen, self).ev_Subscript(ast.Subscript(value=nm, slice=n.slice, ctx=ast.Load()), env)
        return self._with_base(base, env, go)

    def ev_NamedExpr(self, n, env):
        v = self.ev(n.value, env)
        e = env
        while e is not None:
            e[n.target.id] = v
            e = e.get("__outer__")
        return v

    def ev_Set(self, n, env):
        return MSet([self.ev(e, env) for e in n.elts], self.set_order)

    def ev_Starred(self, n, env):
        raise Unsupported("starred expression " + unparse(n))

    def _elts(self, elts, env):
        out = []
        for e in elts:
            if isinstance(e, ast.Starred):
                v = self.concrete(self.ev(e.value, env))
                if isinstance(v, MSet):
                    v = v.seq()
                if isinstance(v, (list, tuple, range)):
                    out.extend(v)
                else:
                    out.append(Splat(v))
            else:
                out.append(self.ev(e, env))
        return out

    def ev_List(self, n, env):
        return self._elts(n.elts, env)

    def ev_Tuple(self, n, env):
        return tuple(self._elts(n.elts, env))

    # ---- comprehensions (concrete when the iterables are)
    def _comp(self, gens, env, emit):
        def rec(i, e):
            if i == len(gens):
                emit(e)
                return True
            g = gens[i]
            it = self.concrete(self.ev(g.iter, e))
            if isinstance(it, dict):
                it = list(it)
            if isinstance(it, MSet):
                it = it.seq()
            if not isinstance(it, (list, tuple, range)):
                return False
            for x in list(it):
                e2 = dict(e)
                e2["__outer__"] = e
                self.assign(g.target, x, e2)
                if all(self.truth(self.ev(c, e2)) for c in g.ifs):
                    if not rec(i + 1, e2):
                        return False
            return True
        return rec(0, env)

    def ev_ListComp(self, n, env):
        out = []
        if self._comp(n.generators, env, lambda e: out.append(self.ev(n.elt, e))):
            return out
        return super().ev_ListComp(n, env)

    ev_GeneratorExp = ev_ListComp

    def ev_SetComp(self, n, env):
        out = []
        if self._comp(n.generators, env, lambda e: out.append(self.ev(n.elt, e))):
            return MSet(out, self.set_order)
        return Sym(f"{{{unparse(n)[:40]}}}")

    def ev_DictComp(self, n, env):
        out = {}

        def emit(e):
            out[self.concrete(self.ev(n.key, e))] = self.ev(n.value, e)
        if self._comp(n.generators, env, emit):
            return out
        return super().ev_DictComp(n, env)

    # ---- assignment to mock objects
    def assign(self, t, v, env):
        if isinstance(t, ast.Attribute):
            base = self.ev(t.value, env)
            if isinstance(base, Obj):
                base.attrs[t.attr] = v
                self.trace.append(Mark("store", base, [t.attr, v], {}))
                return

            def go(nm):
                return super(Scen, self).assign(ast.Attribute(value=nm, attr=t.attr, ctx=ast.Store()), v, env)
            return self._with_base(base, env, go)
        return super().assign(t, v, env)

    def stmt(self, s, env):
        if isinstance(s, ast.For):
            it = self.concrete(self.ev(s.iter, env))
            if isinstance(it, MSet):
                it = it.seq()
            elif isinstance(it, Mark):
                raise Unsupported("iteration over the result of an uninterpreted call: " + unparse(s.iter)[:60])
            key = f"__iter{id(s)}__"
            env[key] = it
            try:
                return super().stmt(ast.For(target=s.target, iter=ast.Name(id=key, ctx=ast.Load()), body=s.body, orelse=[], lineno=getattr(s, "lineno", 0)), env)
            finally:
                env.pop(key, None)
        if isinstance(s, ast.Delete):
            for t in s.targets:
                if isinstance(t, ast.Subscript):
                    base = self.concrete(self.ev(t.value, env))
                    k = self.concrete(self.ev(t.slice, env))
                    if isinstance(base, (list, dict)) and not isinstance(k, Sym):
                        del base[k]
                        continue
                raise Unsupported("del " + unparse(t))
            return
        if isinstance(s, ast.While):
            n = 0
            from ..dtab import _Break, _Continue
            try:
                while self.truth(self.ev(s.test, env)):
                    n += 1
                    if n > 200:
                        raise Unsupported("while loop does not terminate on the scenario")
                    try:
                        self.block(s.body, env)
                    except _Continue:
                        continue
            except _Break:
                pass
            return
        return super().stmt(s, env)

    # ---- calls
    def _args(self, n, env):
        args = []
        for a in n.args:
            if isinstance(a, ast.Starred):
                v = self.concrete(self.ev(a.value, env))
                if not isinstance(v, (list, tuple)):
                    raise Unsupported("*args of an undetermined value: " + unparse(n)[:60])
                args.extend(v)
            else:
                args.append(self.ev(a, env))
        kw = {}
        for k in n.keywords:
            if k.arg:
                kw[k.arg] = self.ev(k.value, env)
            else:
                d = self.concrete(self.ev(k.value, env))
                if not isinstance(d, dict):
                    raise Unsupported("**kwargs of an undetermined value: " + unparse(n)[:60])
                kw.update(d)
        return args, kw

    def mark(self, name, recv, args, kw):
        m = Mark(name, recv, args, kw)
        self.trace.append(m)
        kind = self.markers.get(name)
        if callable(kind):
            return kind(m)
        if kind == "self":
            return recv
        return [m] if kind == "list" else m

    def construct(self, cname, args, kw, n):
        ci = self.pm.classes.get(cname)
        if args and ci is not None:
            names = [f for f in self.pm.all_fields(cname)]
            for f, v in zip(names, args):
                kw.setdefault(f, v)
        if cname == "BroadcastValue":
            kw["value"] = nested_list_form(self.concrete(kw.get("value")))
            kw.setdefault("dimension", None)
        o = Obj(f"{cname}#{len(self.trace)}", cls=cname)
        o.attrs = dict(kw)
        self.trace.append(Mark("new", o, [], kw))
        return o

    def call_closure(self, clo, args, n, env):
        _, node, cenv = clo
        e2 = dict(cenv)
        a = node.args
        ps = [x.arg for x in list(a.posonlyargs) + list(a.args)]
        dflt = dict(zip(ps[len(ps) - len(a.defaults):], a.defaults))
        kw = {}
        if isinstance(n, ast.Call):
            for k in n.keywords:
                if k.arg:
                    kw[k.arg] = self.ev(k.value, env)
        for i, p in enumerate(ps):
            if i < len(args):
                e2[p] = args[i]
            elif p in kw:
                e2[p] = kw[p]
            elif p in dflt:
                e2[p] = self.ev(dflt[p], cenv)
        for p, d in zip(a.kwonlyargs, a.kw_defaults):
            e2[p.arg] = kw[p.arg] if p.arg in kw else (self.ev(d, cenv) if d is not None else Sym(p.arg))
        if isinstance(node, ast.Lambda):
            return self.ev(node.body, e2)
        from ..dtab import _Return
        try:
            self.block(node.body, e2)
        except _Return as r:
            return r.v
        return None

    def _invoke(self, fi, recv, args, kw, n, env):
        if fi.is_static or fi.is_classmethod:
            a = fi.node.args
            ps = [x.arg for x in list(a.posonlyargs) + list(a.args)]
            if fi.is_classmethod and ps:
                ps = ps[1:]
            bound = dict(zip(ps, args))
            bound.update(kw)
            return self.call_fi(fi, bound)
        return self.invoke(fi, recv, args, n, env, kw)

    _NATIVE = {"accumulate", "chain", "enumerate", "zip", "sum", "sorted", "reversed", "list", "tuple", "set", "frozenset", "abs", "round", "divmod", "dict", "min", "max", "float", "int", "str", "len", "range", "any", "all", "bool", "repr"}

    def ev_Call(self, n, env):
        f = n.func
        if isinstance(f, ast.Name):
            nm = f.id
            tgt = env.get(nm)
            if isinstance(tgt, (Mark, Sym)) or (isinstance(tgt, tuple) and len(tgt) == 2 and tgt[0] in ("class", "func")):
                args, kw = self._args(n, env)
                if isinstance(tgt, tuple):
                    return self.construct(tgt[1].name, args, kw, n) if tgt[0] == "class" else self._invoke(tgt[1], None, args, kw, n, env)
                return self.mark("()", tgt, args, kw)
            if nm == "type" and len(n.args) == 1 and nm not in env:
                return TypeOf(self.concrete(self.ev(n.args[0], env)))
            if tgt is None and nm not in env:
                fi = env.get("__fi__")
                r = self.pm.resolve(fi.module, nm) if fi else None
                if r and r[0] == "class":
                    args, kw = self._args(n, env)
                    return self.construct(r[1].name, args, kw, n)
                if nm in self.markers:
                    args, kw = self._args(n, env)
                    return self.mark(nm, None, args, kw)
                if r and r[0] == "func":
                    args, kw = self._args(n, env)
                    return self._invoke(r[1], None, args, kw, n, env)
                if nm in self._NATIVE:
                    args, kw = self._args(n, env)
                    args = [self.concrete(a) for a in args]
                    got = self.native(nm, args, kw, n)
                    if got is not NotImplemented:
                        return got
                    return self._super_call(n, env, args, kw)       # dtab's symbolic treatment, without re-evaluating the arguments
                if nm == "isinstance" and len(n.args) == 2:
                    v = self.concrete(self.ev(n.args[0], env))
                    names = [x.id if isinstance(x, ast.Name) else x.attr for x in ast.walk(n.args[1]) if isinstance(x, (ast.Name, ast.Attribute))]
                    if isinstance(v, Frame):
                        return "DataFrame" in names
                    if isinstance(v, Obj):
                        return bool(v.cls) and any(c in names for c in self.pm.mro(v.cls))
                    if isinstance(v, (AV, Mark)):
                        raise Unsupported("isinstance of an opaque mock value")
                    if isinstance(v, _Fr):
                        return any(x in names for x in ("float", "int"))
                if nm == "getattr" and len(n.args) in (2, 3):
                    o = self.concrete(self.ev(n.args[0], env))
                    k = self.concrete(self.ev(n.args[1], env))
                    if isinstance(o, Obj) and isinstance(k, str):
                        v = self.attr_of(o, k, n, env)
                        if isinstance(v, Sym) and len(n.args) == 3 and o.default is None and k not in o.attrs:
                            return self.ev(n.args[2], env)
                        return v
                    if isinstance(o, Sym) and isinstance(k, str):
                        return self.attr_of(o, k, n, env)
                if nm == "setattr" and len(n.args) == 3:
                    o = self.concrete(self.ev(n.args[0], env))
                    k = self.concrete(self.ev(n.args[1], env))
                    if isinstance(o, Obj) and isinstance(k, str):
                        v = self.ev(n.args[2], env)
                        o.attrs[k] = v
                        self.trace.append(Mark("store", o, [k, v], {}))
                        return None
                if nm == "hasattr" and len(n.args) == 2:
                    o = self.concrete(self.ev(n.args[0], env))
                    k = self.concrete(self.ev(n.args[1], env))
                    if isinstance(o, Obj) and isinstance(k, str):
                        return k in o.attrs or o.default is not None or bool(o.cls and (self.pm.field_decl(o.cls, k) is not None or self.pm.find_method(o.cls, k)))
                    if isinstance(o, (Frame, list, tuple, dict, str, int, float, _Fr)) and isinstance(k, str):
                        return k in ("columns", "shape", "height", "width") if isinstance(o, Frame) else hasattr(o, k)
                if nm in ("deepcopy", "copy"):
                    import copy
                    v = self.concrete(self.ev(n.args[0], env))
                    if not isinstance(v, Sym):
                        return copy.deepcopy(v) if nm == "deepcopy" else copy.copy(v)
            return super().ev_Call(n, env)
        if isinstance(f, ast.Attribute):
            m = f.attr
            base = self.ev(f.value, env)
            return self.call_method(base, m, n, env)
        return super().ev_Call(n, env)

    def _super_call(self, n, env, args, kw):
        names = []
        call = ast.Call(func=n.func, args=[], keywords=[])
        for i, a in enumerate(args):
            k = f"__arg{len(env)}_{i}__"
            env[k] = a
            names.append(k)
            call.args.append(ast.Name(id=k, ctx=ast.Load()))
        for kk, v in kw.items():
            k = f"__kw{len(env)}_{kk}__"
            env[k] = v
            names.append(k)
            call.keywords.append(ast.keyword(arg=kk, value=ast.Name(id=k, ctx=ast.Load())))
        try:
            return super().ev_Call(call, env)
        finally:
            for k in names:
                env.pop(k, None)

    def native(self, nm, args, kw, n):
        if any(isinstance(a, Sym) for a in args) or any(isinstance(v, Sym) for v in kw.values()):
            return NotImplemented
        if nm == "len" and args and isinstance(args[0], (list, tuple, dict, str, range, Frame)):
            return len(args[0])
        if nm in ("accumulate", "chain"):
            its = [list(a) if isinstance(a, (list, tuple, range)) else a.seq() if isinstance(a, MSet) else None for a in args]
            if any(i is None for i in its) or (nm == "accumulate" and (len(args) != 1 or set(kw) - {"initial"})):
                return NotImplemented
            if nm == "chain":
                return [x for i in its for x in i]
            if any(not isinstance(x, (int, float, _Fr)) for x in its[0]):
                return NotImplemented
            out, acc = [], kw.get("initial")
            if acc is not None:
                out.append(acc)
            for x in its[0]:
                acc = x if acc is None else acc + x
                out.append(acc)
            return out
        if nm in ("list", "tuple", "set", "frozenset", "sorted", "reversed", "enumerate", "zip", "sum", "any", "all", "min", "max") and args:
            its = [list(a) if isinstance(a, (list, tuple, range, dict)) else a.seq() if isinstance(a, MSet) else None for a in args]
            if nm in ("min", "max") and len(args) > 1:
                if any(isinstance(a, (Frame, Obj, AV, Mark, list, dict)) for a in args):
                    return NotImplemented
                return (min if nm == "min" else max)(args)
            if nm == "sum" and its[0] is not None:
                if any(isinstance(x, (Sym, AV, Mark, Obj)) for x in its[0]):
                    return NotImplemented
                return sum(its[0], *args[1:])
            if nm == "zip":
                if any(i is None for i in its):
                    return NotImplemented
                if kw.get("strict") and len({len(i) for i in its}) > 1:
                    raise _Raise("ValueError zip(strict=True) of unequal lengths")
                return [tuple(x) for x in zip(*its)]
            if its[0] is None:
                return NotImplemented
            if nm == "enumerate":
                return [tuple(x) for x in enumerate(its[0], *(args[1:2] or [kw.get("start", 0)]))]
            if nm == "list":
                return list(its[0])
            if nm in ("tuple", "set", "frozenset"):
                return tuple(its[0]) if nm == "tuple" else MSet(its[0], self.set_order)
            if nm == "reversed":
                return list(reversed(its[0]))
            if nm == "sorted":
                if "key" in kw or any(isinstance(x, (Sym, AV, Mark, Obj)) for x in its[0]):
                    return NotImplemented
                return sorted(its[0], reverse=bool(kw.get("reverse", False)))
            if nm in ("any", "all"):
                return (any if nm == "any" else all)(self.truth(x) for x in its[0])
        if nm in ("list", "tuple", "dict") and not args:
            return {"list": [], "tuple": (), "dict": dict(kw)}[nm]
        if nm in ("set", "frozenset") and not args:
            return MSet((), self.set_order)
        if nm == "len" and args and isinstance(args[0], MSet):
            return len(args[0])
        if nm == "dict" and args and isinstance(args[0], dict):
            return {**args[0], **kw}
        if nm == "float" and args and isinstance(args[0], (int, float, _Fr)):
            return args[0] if isinstance(args[0], _Fr) else float(args[0])
        if nm == "int" and args and isinstance(args[0], (int, float, _Fr, str)):
            return int(args[0])
        if nm in ("abs", "round") and args and isinstance(args[0], (int, float, _Fr)):
            return abs(args[0]) if nm == "abs" else round(*args)
        if nm == "str" and args and isinstance(args[0], (str, int, float, _Fr, AV, Mark)) or nm == "str" and args and args[0] is None:
            return str(args[0])
        if nm == "bool" and args:
            return self.truth(args[0])
        if nm == "range" and all(isinstance(a, int) for a in args):
            return range(*args)
        return NotImplemented

    def call_method(self, base, m, n, env):
        base = self._fix(base)
        if isinstance(base, tuple) and len(base) == 2 and base[0] == "class":
            got = self.pm.find_method(base[1].name, m)
            args, kw = self._args(n, env)
            if m in self.markers:
                return self.mark(m, base[1].name, args, kw)
            if got is not None and (got.is_static or got.is_classmethod):
                return self._invoke(got, None, args, kw, n, env)
            raise Unsupported("call on class " + unparse(n)[:60])
        if m in self.markers:
            args, kw = self._args(n, env)
            return self.mark(m, base, args, kw)
        if isinstance(base, Frame):
            args, kw = self._args(n, env)
            args = [self.concrete(a) for a in args]
            return self.frame_call(base, m, args, kw, n)
        if isinstance(base, MSet):
            args, kw = self._args(n, env)
            cargs = [self.concrete(a) for a in args]
            if m in ("add", "update", "discard", "remove", "copy") and not any(isinstance(a, Sym) for a in cargs):
                try:
                    return getattr(base, m)(*cargs)
                except KeyError as e:
                    raise _Raise("KeyError " + str(e))
            if m in ("union", "difference", "intersection") and len(cargs) == 1 and isinstance(cargs[0], (MSet, list, tuple)):
                other = list(cargs[0])
                items = {"union": base.items + [x for x in other if x not in base.items], "difference": [x for x in base.items if x not in other],
                         "intersection": [x for x in base.items if x in other]}[m]
                return MSet(items, base.order)
            raise Unsupported(f"set method {m}")
        if isinstance(base, Obj):
            args, kw = self._args(n, env)
            if m in base.attrs and isinstance(base.attrs[m], tuple) and base.attrs[m][:1] == ("closure",):
                return self.call_closure(base.attrs[m], args, n, env)
            if m in ("model_copy", "copy"):
                import copy
                o = copy.copy(base)
                o.attrs = copy.deepcopy(base.attrs) if kw.get("deep") else dict(base.attrs)
                o.name = base.name + "'"
                upd = self.concrete(kw.get("update")) if "update" in kw else None
                if isinstance(upd, dict):
                    o.attrs.update(upd)
                return o
            got = self.pm.find_method(base.cls, m) if base.cls else None
            if got is not None and m not in self.opaque_calls:
                return self._invoke(got, base, args, kw, n, env)
            raise Unsupported(f"method {m} of mock object {base!r}")
        if isinstance(base, (list, dict, str, tuple)) and not (isinstance(base, tuple) and base and base[0] in ("dictmethod", "strmethod", "closure", "bound", "method", "framemethod")):
            args, kw = self._args(n, env)
            cargs = [self.concrete(a) for a in args]
            if isinstance(base, list) and m == "extend" and len(cargs) == 1:
                if isinstance(cargs[0], (list, tuple, range)):
                    base.extend(cargs[0])
                else:
                    base.append(Splat(cargs[0]))
                return None
            if isinstance(base, str) and m == "join" and len(cargs) == 1 and isinstance(cargs[0], (list, tuple)):
                if all(isinstance(x, str) for x in cargs[0]):
                    return base.join(cargs[0])
                return Mark("join", base, list(cargs[0]), {})
            if isinstance(base, dict) and m in ("get", "pop", "setdefault") and cargs and isinstance(cargs[0], Sym):
                cargs[0] = cargs[0].path
            if isinstance(base, tuple) and m in ("index", "count"):
                return getattr(base, m)(*cargs)
            if hasattr(base, m) and not any(isinstance(a, Sym) for a in cargs[:1] if m in ("index", "count", "remove")):
                if m == "index" and isinstance(base, list):
                    try:
                        return base.index(*cargs)
                    except ValueError:
                        raise _Raise("ValueError not in list")
                if m == "copy" and isinstance(base, (list, dict)):
                    return base.copy()
                if m in ("items", "keys", "values") and isinstance(base, dict):
                    return list(getattr(base, m)())
                if m == "update" and isinstance(base, dict):
                    a0 = cargs[0] if cargs else {}
                    if isinstance(a0, dict):
                        base.update(a0, **kw)
                        return None
                    raise Unsupported("dict.update with an undetermined value")
                try:
                    return getattr(base, m)(*cargs, **{k: self.concrete(v) for k, v in kw.items()})
                except KeyError as e:
                    raise _Raise("KeyError " + str(e))
                except (IndexError, ValueError) as e:
                    raise _Raise(type(e).__name__)
        node = ast.Call(func=ast.Attribute(value=None, attr=m, ctx=ast.Load()), args=n.args, keywords=n.keywords)
        if isinstance(base, Sym) and m in self.frame_passthrough:
            args, kw = self._args(n, env)
            fr = [a for a in args + list(kw.values()) if isinstance(self.concrete(a), Frame)]
            if fr:
                src = self.concrete(fr[-1] if m == "restore_page_context" and len(fr) > 1 else fr[0])
                out = src.derive(tag=f"{m}({src.tag})")
                self.trace.append(Mark(m, base, args, kw))
                return out

        def go(nm):
            node.func.value = nm
            return super(Scen, self).ev_Call(node, env)
        return self._fix(self._with_base(base, env, go))

    def frame_call(self, fr, m, args, kw, n):
        if any(isinstance(a, Sym) for a in args) or any(isinstance(self.concrete(v), Sym) for v in kw.values()):
            raise Unsupported(f"frame.{m} with undetermined arguments: " + unparse(n)[:60])
        kw = {k: self.concrete(v) for k, v in kw.items()}
        if m == "slice":
            off = args[0] if args else kw.get("offset", 0)
            ln = args[1] if len(args) > 1 else kw.get("length")
            if off < 0:
                off = max(0, len(fr.rows) + off)
            return fr.derive(rows=fr.rows[off:] if ln is None else fr.rows[off:off + max(0, ln)])
        if m in ("head", "limit"):
            k = args[0] if args else kw.get("n", 5)
            return fr.derive(rows=fr.rows[:k] if k >= 0 else fr.rows[:len(fr.rows) + k])
        if m == "tail":
            k = args[0] if args else kw.get("n", 5)
            return fr.derive(rows=(fr.rows[-k:] if k else []) if k >= 0 else fr.rows[-k:])
        if m == "row":
            i = args[0] if args else kw.get("index")
            if not isinstance(i, int) or not (-len(fr.rows) <= i < len(fr.rows)):
                raise _Raise("OutOfBoundsError")
            return fr.row(i)
        if m in ("rows", "iter_rows"):
            return [fr.row(i) for i in range(len(fr.rows))]
        if m == "item" and len(args) == 2:
            return fr.value(fr.rows[args[0]], fr.cols[args[1]] if isinstance(args[1], int) else args[1])
        if m in ("clone", "lazy", "collect", "rechunk"):
            return fr.derive()
        if m == "fill_null" and (args or "value" in kw):
            v = args[0] if args else kw["value"]
            kind = "str" if isinstance(v, str) else "num" if isinstance(v, (int, float)) and not isinstance(v, bool) else None
            if kind is None:
                raise Unsupported("fill_null value " + repr(v)[:30])
            filled = dict(fr.filled)
            for c in fr.cols:
                if fr.dtypes.get(c, "str") == kind and c not in filled:
                    filled[c] = v           # polars fills only the columns whose dtype accepts the value
            return fr.derive(filled=filled)
        if m == "select":
            cols = list(args[0]) if args and isinstance(args[0], (list, tuple)) else list(args)
            if not all(isinstance(c, str) and c in fr.cols for c in cols):
                raise Unsupported("frame.select " + unparse(n)[:60])
            return fr.derive(cols=cols)
        if m == "drop":
            cols = list(args[0]) if args and isinstance(args[0], (list, tuple)) else list(args)
            return fr.derive(cols=[c for c in fr.cols if c not in cols])
        if m == "get_column_index" and args:
            if args[0] not in fr.cols:
                raise _Raise("ColumnNotFoundError")
            return fr.cols.index(args[0])
        if m == "is_empty":
            return len(fr.rows) == 0
        raise Unsupported(f"frame method {m} is not modelled")
