"""C01 - every accepted document encodes to well-formed RTF.

Decided (see DESIGN.md §4 C01): R01.1 single balanced top-level group on all three encode paths,
R01.2 \\cellx/\\cell pairing per row, R01.3 lexical adjacency, R01.4 attribute->model-field type
agreement and integer parameters, R01.5 optional-return discipline, R01.6 validator/emitter table
agreement (shared with C19).
"""
from __future__ import annotations

import ast
import re

from .. import lex
from .. import shapes as S
from ..absint import VList, VObj, VOpq, VSeqObj, VStr, VTuple, pyconst, split_union
from ..callgraph import CallGraph
from ..docshape import PATHS, as_shape, call, doc_shape, make_interp
from ..pm import AnalysisError, dotted, unparse, walk_no_nested
from ..report import Ctx

ROW_WORDS = ("\\trowd", "\\cellx", "\\cell", "\\row", "\\intbl")


def r01_1(ctx: Ctx, it) -> dict:
    pm = ctx.pm
    shapes = {}
    for path in PATHS:
        fi = pm.func(path)
        r, sh = doc_shape(it, pm, path)
        shapes[path] = sh
        alts = S.alternatives(sh)
        ctx.instance("R01.1", fi.where(), f"{path}: {len(alts)} top-level alternative(s); shape {S.show(sh, 160)}")
        unk = S.has_unk(sh)
        if unk:
            ctx.gap("R01.1", f"{path}: a fragment of the output could not be given a shape ({unk[0]}); brace balance cannot be established")
            continue
        for a in alts:
            heads = S.heads(a, 8)
            tails = S.tails(a, 2)
            desc = S.show(a, 80)
            if a == S.EPS or heads == {""}:
                ctx.violation("R01.1", path, "returns empty string", fi.where(),
                              f"{path} can return the empty string instead of one RTF group")
                continue
            bad_head = [h for h in heads if not h.startswith("{\\rtf1")]
            if bad_head:
                ctx.violation("R01.1", path, "head " + repr(sorted(bad_head)[0]), fi.where(),
                              f"{path}: output can start with {sorted(bad_head)[0]!r} instead of the RTF signature")
            bad_tail = [t for t in tails if not t.endswith("}")]
            if bad_tail:
                ctx.violation("R01.1", path, "tail " + repr(sorted(bad_tail)[0]), fi.where(),
                              f"{path}: output can end with {sorted(bad_tail)[0]!r}; something follows the closing brace")
            br = S.braces(a)
            for (d, m) in br:
                if isinstance(d, str):
                    ctx.violation("R01.1", path, f"{d}: {m}", fi.where(), f"{path}: {d} {m}")
                elif d != 0 or m < 0:
                    ctx.violation("R01.1", path, f"delta={d} min={m}", fi.where(),
                                  f"{path}: unbalanced groups (net {d:+d}, minimum prefix depth {m}) in {desc}")
            # depth must stay >= 1 between the first and the last character
            its = S.items_of(a)
            if its and isinstance(its[0], S.Lit) and its[0].s.startswith("{") and isinstance(its[-1], S.Lit) \
                    and its[-1].s.endswith("}") and len(its) >= 2:
                inner = S.seq(S.Lit(its[0].s[1:]), *its[1:-1], S.Lit(its[-1].s[:-1]))
                for (d, m) in S.braces(inner):
                    if not isinstance(d, str) and (d != 0 or m < 0):
                        ctx.violation("R01.1", path, f"inner delta={d} min={m}", fi.where(),
                                      f"{path}: the top-level group closes before the end of the document")
    return shapes


def r01_2(ctx: Ctx, it) -> None:
    pm = ctx.pm
    # (a) the row emitter pairs boundaries and contents
    fi = pm.func("Row._as_rtf")
    it_row = make_interp(pm)          # fresh interpreter: its calls_seen = the functions the pairing argument covers
    r = call(it_row, pm, "Row._as_rtf", VObj("Row", {}))
    covered = set(it_row.calls_seen)
    sh = as_shape(it_row, r)
    cx, ce = S.count(sh, "\\cellx"), S.count(sh, "\\cell")
    tr, rw = S.count(sh, "\\trowd"), S.count(sh, "\\row")
    ctx.instance("R01.2", fi.where(), f"Row._as_rtf: \\cellx={_poly(cx)} \\cell={_poly(ce)} \\trowd={_poly(tr)} \\row={_poly(rw)}")
    unk = S.has_unk(sh)
    if unk:
        ctx.gap("R01.2", f"Row._as_rtf: the row could not be given a shape ({unk[0]}); \\cellx/\\cell pairing undecided")
    elif cx != ce or len(cx) != 1:
        ctx.violation("R01.2", "Row._as_rtf", f"cellx={_poly(cx)} cell={_poly(ce)}", fi.where(),
                      f"row emitter: number of \\cellx boundaries {_poly(cx)} differs from number of \\cell contents {_poly(ce)}")
    if not unk and (tr != rw or tr != {frozenset({("1", 1)})}):
        ctx.violation("R01.2", "Row._as_rtf", f"trowd={_poly(tr)} row={_poly(rw)}", fi.where(),
                      "row emitter: not exactly one \\trowd and one \\row per row")
    # (b) table encoders produce rows only through Row._as_rtf and keep the pairing
    for short, recv, kw in (
        ("TableAttributes._encode", VObj("RTFBody", {}),
         {"df": VOpq("pl.DataFrame", "df"), "col_widths": VOpq("Sequence[float]", "col_widths")}),
        ("RTFEncodingService.encode_spanning_row", None,
         {"text": VStr(S.Txt("raw", "group value")), "page_width": VOpq("float", "page_width"),
          "rtf_body_attrs": VOpq("RTFBody", "rtf_body_attrs")}),
    ):
        f2 = pm.func(short)
        sh2 = as_shape(it, call(it, pm, short, recv, (), kw))
        cx, ce = S.count(sh2, "\\cellx"), S.count(sh2, "\\cell")
        tr, rw = S.count(sh2, "\\trowd"), S.count(sh2, "\\row")
        ctx.instance("R01.2", f2.where(), f"{short}: \\cellx={_poly(cx)} \\cell={_poly(ce)} rows={_poly(rw)}")
        unk2 = S.has_unk(sh2)
        if unk2:
            ctx.gap("R01.2", f"{short}: {unk2[0]}")
            continue
        if cx != ce:
            ctx.violation("R01.2", short, f"cellx={_poly(cx)} cell={_poly(ce)}", f2.where(),
                          f"{short}: \\cellx count {_poly(cx)} != \\cell count {_poly(ce)}")
        if tr != rw:
            ctx.violation("R01.2", short, f"trowd={_poly(tr)} row={_poly(rw)}", f2.where(),
                          f"{short}: \\trowd count {_poly(tr)} != \\row count {_poly(rw)}")
    # (c) who may emit row words: string literals containing them exist only in the row emitters
    n = 0
    for fi2 in pm.iter_funcs():
        for node in walk_no_nested(fi2.node):
            if isinstance(node, ast.Constant) and isinstance(node.value, str):
                words = [w for w in ROW_WORDS if re.search(re.escape(w) + r"(?![a-zA-Z])", node.value)]
                if not words:
                    continue
                if _is_docstring(node):
                    continue
                n += 1
                owner = fi2.short.split(".<locals>")[0]
                ctx.instance("R01.2", fi2.where(node), f"{fi2.short}: literal with {words}", nontrivial=False)
                if owner not in covered:
                    ctx.violation("R01.2", fi2.short, "row word literal " + ",".join(words), fi2.where(node),
                                  f"{fi2.short} writes table-row control words {words} outside the row emitter; "
                                  "the \\cellx/\\cell pairing argument does not cover it")
    ctx.floor("R01.2", 6)


def _is_docstring(node: ast.Constant) -> bool:
    p = getattr(node, "_parent", None)
    return isinstance(p, ast.Expr)


def _poly(ps) -> str:
    out = []
    for p in ps:
        out.append("+".join(f"{v}·|{k}|" if k != "1" else str(v) for k, v in sorted(p)) or "0")
    return "{" + ", ".join(sorted(out)) + "}"


def r01_3(ctx: Ctx, shapes: dict) -> None:
    for path, sh in shapes.items():
        fi = ctx.pm.func(path)
        issues = lex.check(sh, path)
        ctx.instance("R01.3", fi.where(), f"{path}: lexical adjacency fold, {len(issues)} issue(s)")
        for kind, msg, _ in issues:
            # raw user text is C10's subject; here only structural glue/parameter problems
            ctx.violation("R01.3", path, f"{kind}: {msg}", fi.where(), f"{path}: {msg}")


SCALARS = ("int", "float", "str", "bool")


def elem_types(ann: str) -> set[str]:
    """scalar element types of an attribute annotation like list[float] | list[list[float]] | None"""
    out = set()
    for p in split_union(ann.replace(" ", "")):
        if p == "None":
            continue
        q = p
        while True:
            m = re.match(r"^(?:list|Sequence|tuple|MutableSequence)\[(.*)\]$", q)
            if not m:
                break
            q = m.group(1)
        for s in split_union(q):
            out.add(s)
    return out


ATTR_CLASSES = ("TableAttributes", "TextAttributes")


def source_attribute(pm, fi, value: ast.AST) -> str | None:
    """the user-facing attribute (a declared field of TableAttributes / TextAttributes) a constructor argument is
    read from: named by a constant string argument of a getter call (`get("text_font_size", i)`) or read as
    `x.text_font_size` somewhere in the expression (temporaries resolved).  None if not exactly one."""
    from ..astmatch import resolve
    e = resolve(value, fi.node)
    found = []
    for x in ast.walk(e):
        name = None
        if isinstance(x, ast.Call):
            for a in list(x.args) + [k.value for k in x.keywords]:
                if isinstance(a, ast.Constant) and isinstance(a.value, str):
                    name = a.value
                    if any(pm.field_decl(c, name) is not None for c in ATTR_CLASSES) and name not in found:
                        found.append(name)
        elif isinstance(x, ast.Attribute) and isinstance(x.ctx, ast.Load):
            name = x.attr
            if any(pm.field_decl(c, name) is not None for c in ATTR_CLASSES) and name not in found:
                found.append(name)
    return found[0] if len(found) == 1 else None


def r01_4(ctx: Ctx) -> None:
    from ..astmatch import resolve
    from ..consteval import expand_keywords
    pm = ctx.pm
    models = ("TextContent", "Cell", "Row", "Border")
    for fi in pm.iter_funcs():
        for c in walk_no_nested(fi.node):
            if not (isinstance(c, ast.Call) and dotted(c.func).split(".")[-1] in models):
                continue
            model = dotted(c.func).split(".")[-1]
            pairs, complete = expand_keywords(pm, fi, c)
            if not complete:
                ctx.gap("R01.4", f"{fi.short}: {model}(…, **mapping) at {fi.where(c)}: the mapping could not be expanded into "
                                 "field/attribute pairs")
            for field, value in pairs:
                attr = source_attribute(pm, fi, value)
                if attr is None:
                    continue
                src_cls = "TableAttributes" if pm.field_decl("TableAttributes", attr) is not None else "TextAttributes"
                ann = pm.field_ann(src_cls, attr)
                fann = pm.field_ann(model, field)
                if ann is None or fann is None:
                    continue
                et = elem_types(ann)
                ft = set(split_union(fann.replace(" ", ""))) - {"None"}
                ctx.instance("R01.4", fi.where(c), f"{fi.short}: {model}.{field}:{fann} <- {attr}:{sorted(et)}")
                if "float" in et and "float" not in ft and "int" in ft:
                    ctx.violation("R01.4", f"{model}.{field}", f"{attr}: float -> int", fi.where(c),
                                  f"{fi.short}: attribute {attr} admits float elements ({ann}) but is passed to "
                                  f"{model}.{field}: {fann}; a fractional value (e.g. a half-point size) is accepted "
                                  "at construction and raises ValidationError at encode time")
    ctx.floor("R01.4", 30)
    # integer results of '-> int' helpers used in parameter positions
    fi = pm.func("RTFMeasurements.inch_to_twip")
    rets = [r for r in ast.walk(fi.node) if isinstance(r, ast.Return) and r.value is not None]
    for r in rets:
        v = resolve(r.value, fi.node)
        ok = isinstance(v, ast.Call) and dotted(v.func) in ("round", "int", "math.floor", "math.ceil", "floor", "ceil") and len(v.args) == 1 \
            and not v.keywords
        ctx.instance("R01.4", fi.where(r), f"inch_to_twip returns {unparse(v)}")
        if not ok:
            ctx.violation("R01.4", fi.short, unparse(r.value), fi.where(r),
                          "inch_to_twip must return an integer (round(x)/int(x) with one argument); "
                          f"found {unparse(v)}")


NONE_INTOLERANT_METHODS = {"extend", "join"}


def optional_returning(pm) -> dict:
    out = {}
    for fi in pm.iter_funcs():
        node = fi.node
        if node.returns is not None and unparse(node.returns).replace(" ", "") == "None":
            continue
        rets = [r for r in walk_no_nested(node) if isinstance(r, ast.Return)]
        none_ret = [r for r in rets if r.value is None or (isinstance(r.value, ast.Constant) and r.value.value is None)]
        val_ret = [r for r in rets if r not in none_ret]
        if none_ret and val_ret:
            out[fi.short] = fi
    return out


def r01_5(ctx: Ctx, cg: CallGraph) -> None:
    pm = ctx.pm
    opt = optional_returning(pm)
    reach = cg.reachable(["RTFDocument.rtf_encode", "RTFDocument.__init__"])
    for short in sorted(opt):
        ctx.instance("R01.5", opt[short].where(), f"optional-returning function {short}", nontrivial=False)
    for caller_short in sorted(reach):
        if caller_short not in pm.funcs:
            continue
        cfi = pm.funcs[caller_short]
        for callnode, cands in cg.sites.get(caller_short, []):
            hit = [c for c in cands if c.short in opt]
            if not hit or len(hit) != len(cands) or id(callnode) in cg.imprecise:
                continue   # only precisely resolved calls whose every callee may return None (no CHA noise)
            use = _none_intolerant_use(cfi, callnode)
            ctx.instance("R01.5", cfi.where(callnode), f"{caller_short}: call {unparse(callnode.func)} -> Optional; {'UNGUARDED ' + use if use else 'guarded/tolerant use'}")
            if use:
                ctx.violation("R01.5", caller_short, f"{unparse(callnode.func)} result used by {use}", cfi.where(callnode),
                              f"{caller_short}: result of {hit[0].short} may be None but is used by {use} without a test")
    ctx.floor("R01.5", 6)


def _none_intolerant_use(cfi, call: ast.Call) -> str | None:
    p = getattr(call, "_parent", None)
    # direct uses
    if isinstance(p, ast.Call) and isinstance(p.func, ast.Attribute) and p.func.attr in NONE_INTOLERANT_METHODS and call in p.args:
        return f".{p.func.attr}(…)"
    if isinstance(p, (ast.For, ast.comprehension)) and p.iter is call:
        return "iteration"
    if isinstance(p, ast.Subscript) and p.value is call:
        return "subscript"
    if isinstance(p, ast.Attribute) and p.value is call:
        return f".{p.attr}"
    if isinstance(p, ast.Starred):
        return "unpacking"
    if isinstance(p, ast.BinOp):
        return "arithmetic/concatenation"
    # assigned to a local name: look at later uses
    if isinstance(p, ast.Assign) and len(p.targets) == 1 and isinstance(p.targets[0], ast.Name):
        name = p.targets[0].id
        after = False
        for n in _stmts_in_order(cfi.node):
            if n is p:
                after = True
                continue
            if not after:
                continue
            # reassignment ends the flow
            if isinstance(n, ast.Assign) and any(isinstance(t, ast.Name) and t.id == name for t in n.targets):
                return None
            # an early exit guarded by a None/falsy test of the name protects everything after it
            if isinstance(n, ast.If) and _tests_name(n.test, name) and _exits(n.body):
                return None
            for u in ast.walk(n) if not isinstance(n, (ast.If, ast.For, ast.While, ast.Try, ast.With)) else _own_exprs(n):
                use = _use_of(u, name)
                if use and not _guarded(u, name, cfi.node):
                    return use
    return None


def _stmts_in_order(fn):
    out = []

    def rec(body):
        for s in body:
            out.append(s)
            for fld in ("body", "orelse", "finalbody"):
                if hasattr(s, fld) and isinstance(getattr(s, fld), list):
                    rec(getattr(s, fld))
            if isinstance(s, ast.Try):
                for h in s.handlers:
                    rec(h.body)
    rec(fn.body)
    return out


def _own_exprs(stmt):
    """expressions evaluated by a compound statement itself (test / iter / items), not its body"""
    outs = []
    for fld in ("test", "iter"):
        if hasattr(stmt, fld):
            outs.extend(ast.walk(getattr(stmt, fld)))
    if isinstance(stmt, ast.For):
        outs.append(stmt)
    return outs


def _use_of(u, name: str) -> str | None:
    def isn(x):
        return isinstance(x, ast.Name) and x.id == name
    if isinstance(u, ast.Call) and isinstance(u.func, ast.Attribute) and u.func.attr in NONE_INTOLERANT_METHODS and any(isn(a) for a in u.args):
        return f".{u.func.attr}({name})"
    if isinstance(u, (ast.For,)) and isn(u.iter):
        return f"iteration over {name}"
    if isinstance(u, ast.comprehension) and isn(u.iter):
        return f"iteration over {name}"
    if isinstance(u, ast.Subscript) and isn(u.value):
        return f"{name}[…]"
    if isinstance(u, ast.Attribute) and isn(u.value):
        return f"{name}.{u.attr}"
    if isinstance(u, ast.BinOp) and (isn(u.left) or isn(u.right)):
        return f"arithmetic on {name}"
    return None


def _tests_name(test, name: str) -> bool:
    return any(isinstance(x, ast.Name) and x.id == name for x in ast.walk(test))


def _exits(body) -> bool:
    return bool(body) and isinstance(body[-1], (ast.Return, ast.Raise, ast.Continue, ast.Break))


def _guarded(u, name: str, fn) -> bool:
    p = getattr(u, "_parent", None)
    while p is not None and p is not fn:
        if isinstance(p, (ast.If, ast.IfExp, ast.While)) and _tests_name(p.test, name):
            return True
        if isinstance(p, ast.BoolOp) and any(_tests_name(v, name) for v in p.values if not _contains(v, u)):
            return True
        p = getattr(p, "_parent", None)
    return False


def _contains(root, node) -> bool:
    return any(x is node for x in ast.walk(root))


def _rejects_zero_cols(pm) -> str | None:
    """the guard under which BroadcastValue's dimension validator raises for a non-positive column count, read off the
    validator (second component of the unpacked pair compared `<= 0` / `< 1` on a path that raises); None if absent"""
    from ..astmatch import guard_atoms, guards
    ci = pm.classes.get("BroadcastValue")
    if ci is None:
        return None
    for fi in ci.methods.values():
        vf = fi.validator_fields()
        if not vf or "dimension" not in vf[0]:
            continue
        cols = None
        for a in walk_no_nested(fi.node):
            if isinstance(a, ast.Assign) and isinstance(a.targets[0], (ast.Tuple, ast.List)) and len(a.targets[0].elts) == 2 \
                    and isinstance(a.targets[0].elts[1], ast.Name):
                cols = a.targets[0].elts[1].id
        if cols is None:
            continue
        for r in walk_no_nested(fi.node):
            if isinstance(r, ast.Raise):
                for t, pol in guards(r, fi.node):
                    if not pol:
                        continue
                    for c in ast.walk(t):
                        if isinstance(c, ast.Compare) and len(c.ops) == 1 and isinstance(c.left, ast.Name) and c.left.id == cols \
                                and isinstance(c.comparators[0], ast.Constant) and \
                                ((isinstance(c.ops[0], ast.LtE) and c.comparators[0].value == 0) or (isinstance(c.ops[0], ast.Lt) and c.comparators[0].value == 1)):
                            return unparse(c)
    return None


def _zero_alternatives(col: ast.AST):
    """sub-expressions that make a column count literally zero: (X, how) meaning 'zero when X is None/empty'"""
    out = []
    for x in ast.walk(col):
        if isinstance(x, ast.IfExp):
            for arm, zero_when_true in ((x.orelse, False), (x.body, True)):
                if isinstance(arm, ast.Constant) and arm.value == 0 and not isinstance(arm.value, bool):
                    t = x.test
                    if zero_when_true and isinstance(t, ast.UnaryOp) and isinstance(t.op, ast.Not):
                        t, zero_when_true = t.operand, False
                    if not zero_when_true and isinstance(t, (ast.Name, ast.Attribute)):
                        out.append((t, f"`{unparse(x)}`"))
                    elif isinstance(t, ast.Compare) and len(t.ops) == 1 and isinstance(t.comparators[0], ast.Constant) and t.comparators[0].value is None \
                            and isinstance(t.ops[0], ast.IsNot if not zero_when_true else ast.Is):
                        out.append((t.left, f"`{unparse(x)}`"))
        elif isinstance(x, ast.Call) and dotted(x.func) == "len" and len(x.args) == 1 and isinstance(x.args[0], ast.BoolOp) \
                and isinstance(x.args[0].op, ast.Or) and len(x.args[0].values) == 2:
            a, b = x.args[0].values
            empty = (isinstance(b, (ast.List, ast.Tuple)) and not b.elts) or (isinstance(b, ast.Constant) and b.value in ("", ())) \
                or (isinstance(b, ast.Call) and dotted(b.func) in ("list", "tuple") and not b.args)
            if empty:
                out.append((a, f"`{unparse(x)}`"))
    return out


def r01_10(ctx: Ctx) -> None:
    """R01.10 a broadcast grid is never built with zero columns: where the column component of a
    BroadcastValue(dimension=…) has an explicit 'no text -> 0' alternative, the construction must be guarded by the
    presence of that text (the validator rejects cols <= 0, so an unguarded site raises at encode time for a
    component without text, which construction accepts).  Decided only for objects produced inside the function
    (a copy of a header, a loop element); for parameters the obligation lies with the callers and is not decided."""
    from ..astmatch import alternatives, guard_atoms, guards
    pm = ctx.pm
    why = _rejects_zero_cols(pm)
    if why is None:
        ctx.instance("R01.10", pm.cls("BroadcastValue").path + ":0", "BroadcastValue's validator does not reject a zero column count: nothing to check", nontrivial=False)
        return
    for fi in pm.iter_funcs():
        for c in walk_no_nested(fi.node):
            if not (isinstance(c, ast.Call) and dotted(c.func).split(".")[-1] == "BroadcastValue"):
                continue
            d = next((k.value for k in c.keywords if k.arg == "dimension"), None)
            if d is None or (isinstance(d, ast.Constant) and d.value is None):
                continue

            def tuples(e, extra):
                if isinstance(e, ast.IfExp):
                    yield from tuples(e.body, extra + [(e.test, True)])
                    yield from tuples(e.orelse, extra + [(e.test, False)])
                elif isinstance(e, ast.Tuple) and len(e.elts) == 2:
                    yield e, extra
            site_guards = guards(c, fi.node)
            for alt_e in alternatives(d, fi.node):
                for tup, extra in tuples(alt_e, []):
                    zs = _zero_alternatives(tup.elts[1])
                    atoms = guard_atoms(site_guards + extra, fi.node)
                    ctx.instance("R01.10", fi.where(c), f"{fi.short}: BroadcastValue columns = {unparse(tup.elts[1])[:60]}; "
                                 f"explicit empty alternatives: {[h for _, h in zs]}", nontrivial=bool(zs))
                    fa = fi.node.args
                    params = {a.arg for a in list(fa.posonlyargs) + list(fa.args) + list(fa.kwonlyargs)}
                    for x, how in zs:
                        xs = unparse(x)
                        root = x
                        while isinstance(root, (ast.Attribute, ast.Subscript)):
                            root = root.value
                        if not isinstance(root, ast.Name) or root.id in params:
                            # the object is handed in by the caller, which may establish the presence: not decided here
                            ctx.instance("R01.10", fi.where(c), f"{fi.short}: presence of {xs} is the caller's obligation (parameter): not decided locally", nontrivial=False)
                            continue
                        present = {xs, f"{xs} is not None", f"{xs} != None", f"len({xs}) > 0", f"len({xs}) != 0", f"len({xs}) >= 1"}
                        if not (atoms & present):
                            ctx.violation("R01.10", fi.short, f"zero columns when {xs} is empty", fi.where(c),
                                          f"{fi.short}: the grid's column count {how} is 0 when {xs} is None/empty and the construction is not "
                                          f"guarded by its presence; BroadcastValue rejects it (`{why}`), so encoding raises for a component without text")


def _names(t) -> set[str]:
    return {x.id for x in ast.walk(t) if isinstance(x, ast.Name)}


def _rebound(r, v: str, fn, lp) -> bool:
    """the occurrence `r` of `v` lies in the body of another loop (or a comprehension) that binds `v` itself"""
    c, p = r, getattr(r, "_parent", None)
    while p is not None and c is not fn:
        if isinstance(p, (ast.For, ast.AsyncFor)) and p is not lp and v in _names(p.target) and any(c is s for s in p.body):
            return True
        if isinstance(p, (ast.ListComp, ast.SetComp, ast.GeneratorExp, ast.DictComp)) and any(v in _names(g.target) for g in p.generators):
            return True
        c, p = p, getattr(p, "_parent", None)
    return False


def _params(fn) -> list[str]:
    a = fn.args
    return [x.arg for x in list(a.posonlyargs) + list(a.args) + list(a.kwonlyargs)]


def _emptiness_source(it: ast.AST, fn) -> ast.AST | None:
    """the sequence whose emptiness makes the loop run zero times: `for … in S`, `enumerate(S)`, `range(len(S))`,
    the count seen through single-assignment temporaries and constant subscripts of list/tuple displays"""
    from ..astmatch import resolve

    def count(e):
        e = resolve(e, fn) if isinstance(e, ast.Name) else e
        if isinstance(e, ast.Subscript) and isinstance(e.slice, ast.Constant) and isinstance(e.slice.value, int):
            base = resolve(e.value, fn) if isinstance(e.value, ast.Name) else e.value
            if isinstance(base, (ast.List, ast.Tuple)) and -len(base.elts) <= e.slice.value < len(base.elts):
                return count(base.elts[e.slice.value])
            return None
        if isinstance(e, ast.Call) and dotted(e.func) == "len" and len(e.args) == 1:
            return e.args[0]
        return None
    if isinstance(it, ast.Call) and dotted(it.func) == "range" and len(it.args) == 1 and not it.keywords:
        return count(it.args[0])
    if isinstance(it, ast.Call) and dotted(it.func) in ("enumerate", "list", "tuple", "iter", "reversed", "sorted") and it.args:
        return _emptiness_source(it.args[0], fn)
    if isinstance(it, (ast.Name, ast.Attribute)):
        return it
    return None


def _root(e: ast.AST) -> ast.AST:
    while isinstance(e, (ast.Attribute, ast.Subscript)):
        e = e.value
    return e


def _bind_args(call: ast.Call, callee) -> dict[str, ast.AST] | None:
    """argument expression per parameter name of `callee` (self/cls skipped for attribute calls); None when the call
    uses * or ** arguments"""
    ps = _params(callee.node)
    if callee.cls and ps and ps[0] in ("self", "cls") and not any(dotted(d).endswith("staticmethod") for d in callee.node.decorator_list):
        ps = ps[1:]
    if any(isinstance(a, ast.Starred) for a in call.args) or any(k.arg is None for k in call.keywords):
        return None
    out: dict[str, ast.AST] = {}
    for p_, a in zip(ps, call.args):
        out[p_] = a
    for k in call.keywords:
        out[k.arg] = k.value
    fa = callee.node.args
    pos = list(fa.posonlyargs) + list(fa.args)
    for a, d in zip(pos[len(pos) - len(fa.defaults):], fa.defaults):
        out.setdefault(a.arg, d)
    for a, d in zip(fa.kwonlyargs, fa.kw_defaults):
        if d is not None:
            out.setdefault(a.arg, d)
    return out


_CONST_ATOM = re.compile(r"^(!?)(\w+) (==|!=) (.+)$")


def _excluded_by_constants(atoms: set[str], bound: dict[str, ast.AST]) -> str | None:
    """an atom `param == const` / `param != const` that the call's constant argument falsifies"""
    for a in atoms:
        m = _CONST_ATOM.match(a)
        if not m or m.group(2) not in bound or not isinstance(bound[m.group(2)], ast.Constant):
            continue
        try:
            c = ast.literal_eval(m.group(4))
        except (ValueError, SyntaxError):
            continue
        holds = (bound[m.group(2)].value == c) == (m.group(3) == "==")
        if m.group(1):
            holds = not holds
        if not holds:
            return a
    return None


def _nonempty_verdict(cg: CallGraph, fi, at: ast.AST, x: ast.AST, depth: int = 3) -> tuple[str, str]:
    """is the sequence `x` known to be non-empty whenever `at` executes in `fi`?  ('yes' | 'no' | 'unknown', why).
    'yes' needs a dominating truthiness/length test of `x` here or, when `x` is rooted in a parameter, at every call
    site; 'no' means the chain of callers ends without such a test and every test of `x` on it is a None test."""
    from ..astmatch import guard_atoms, guards, resolve
    import copy
    fn = fi.node
    xr = resolve(x, fn) if isinstance(x, ast.Name) else x
    if isinstance(xr, (ast.List, ast.Tuple)) and xr.elts and not any(isinstance(e, ast.Starred) for e in xr.elts):
        return "yes", "non-empty display"
    atoms = guard_atoms(guards(at, fn), fn)
    forms = {unparse(x), unparse(xr)}
    about: list[str] = []
    for xs in forms:
        if atoms & {xs, f"len({xs}) > 0", f"len({xs}) != 0", f"len({xs}) >= 1", f"0 < len({xs})", f"{xs} != []", f"bool({xs})"}:
            return "yes", f"`{xs}` tested in {fi.short}"
        about += [a for a in atoms if xs in a]
    odd = [a for a in about if not any(a == f"{xs} {op} None" for xs in forms for op in ("is not", "!="))]
    if odd:
        return "unknown", f"{fi.short} tests {odd[0]!r}, a form the rule does not interpret"
    none_only = f" (only a None test: {about[0]})" if about else ""
    root = _root(xr)
    if not (isinstance(root, ast.Name) and root.id in _params(fn)):
        return "unknown", f"{unparse(xr)} in {fi.short} is neither tested nor rooted in a parameter"
    if root.id in ("self", "cls"):
        return "no", f"{fi.short}: {unparse(xr)} is not tested for emptiness{none_only}"
    callers = cg.callers_of(fi.short)
    if not callers:
        return "no", f"{fi.short}: {unparse(xr)} is not tested for emptiness{none_only} and {fi.short} has no resolved caller that could"
    if depth == 0:
        return "unknown", f"caller chain of {fi.short} deeper than the inlining bound"
    for cfi, call in callers:
        bound = _bind_args(call, fi)
        if bound is None or root.id not in bound:
            return "unknown", f"argument for {root.id} at {cfi.where(call)} not resolved"

        class Sub(ast.NodeTransformer):
            def visit_Name(self, n):
                return copy.deepcopy(bound[root.id]) if n.id == root.id else n
        x2 = Sub().visit(copy.deepcopy(xr))
        v, why = _nonempty_verdict(cg, cfi, call, x2, depth - 1)
        if v != "yes":
            return v, why + none_only
    return "yes", f"every caller of {fi.short} tests it"


def r01_11(ctx: Ctx, cg: CallGraph) -> None:
    """R01.11 a loop variable read after its loop is bound: where a `for` target is read after the loop (and is bound
    nowhere else), the loop must run at least once on every path that reaches the read — decided as a non-emptiness
    obligation on the iterated parameter at every call site whose constant arguments do not exclude the read
    (a dominating truthiness/length test; an `is None` test does not exclude the empty sequence, which the component
    models accept)."""
    from ..astmatch import guard_atoms, guards
    pm = ctx.pm
    scanned = 0
    for fi in pm.iter_funcs():
        fn = fi.node
        # "after the loop" is decided in tree order, not by line numbers (inlined helper bodies keep foreign positions)
        order: dict[int, int] = {}

        def number(n):
            if isinstance(n, (ast.expr_context, ast.operator, ast.boolop, ast.unaryop, ast.cmpop)):
                return  # shared singletons
            order[id(n)] = len(order)
            for c in ast.iter_child_nodes(n):
                number(c)
        number(fn)

        def last_in(n):
            return max(order.get(id(x), -1) for x in ast.walk(n))
        for lp in [x for x in walk_no_nested(fn) if isinstance(x, ast.For)]:
            scanned += 1
            for v in sorted(_names(lp.target)):
                reads = [x for x in ast.walk(fn) if isinstance(x, ast.Name) and x.id == v and isinstance(x.ctx, ast.Load)
                         and order.get(id(x), -1) > last_in(lp) and not _rebound(x, v, fn, lp)]
                stores = [x for x in walk_no_nested(fn) if isinstance(x, ast.Name) and x.id == v and isinstance(x.ctx, ast.Store)
                          and not any(x is t for t in ast.walk(lp.target)) and not _rebound(x, v, fn, lp)]
                if not reads or stores or v in _params(fn):
                    continue
                src = _emptiness_source(lp.iter, fn)
                if src is None:
                    if isinstance(lp.iter, ast.Call) and dotted(lp.iter.func) == "range" and all(isinstance(a, ast.Constant) for a in lp.iter.args):
                        continue
                    ctx.gap("R01.11", f"{fi.short}: `{v}` is read after `for {unparse(lp.target)} in {unparse(lp.iter)[:60]}` and the iterable's emptiness source is not recognised")
                    continue
                for r in reads[:1]:
                    atoms = guard_atoms(guards(r, fn), fn)
                    ss = unparse(src)
                    ctx.instance("R01.11", fi.where(lp), f"{fi.short}: `{v}` read after the loop over {unparse(lp.iter)[:50]} (empty iff {ss} is empty) under {sorted(atoms)[:4]}")
                    if atoms & {ss, f"len({ss}) > 0", f"len({ss}) != 0", f"len({ss}) >= 1"}:
                        continue
                    if not (isinstance(_root(src), ast.Name) and _root(src).id in _params(fn) and _root(src).id not in ("self", "cls")):
                        ctx.gap("R01.11", f"{fi.short}: emptiness of {ss} is not a caller obligation the rule can follow")
                        continue
                    callers = cg.callers_of(fi.short)
                    if not callers:
                        ctx.gap("R01.11", f"{fi.short}: no resolved call site to discharge the non-emptiness of {ss}")
                    for cfi, call in callers:
                        bound = _bind_args(call, fi)
                        if bound is None or _root(src).id not in bound:
                            ctx.gap("R01.11", f"{cfi.short}: arguments of the call to {fi.short} at {cfi.where(call)} not resolved")
                            continue
                        ex = _excluded_by_constants(atoms, bound)
                        if ex is not None:
                            ctx.instance("R01.11", cfi.where(call), f"{cfi.short} -> {fi.short}: read unreachable for this call ({ex} is false)", nontrivial=False)
                            continue
                        import copy

                        class Sub(ast.NodeTransformer):
                            def visit_Name(self, n):
                                return copy.deepcopy(bound[_root(src).id]) if n.id == _root(src).id else n
                        x = Sub().visit(copy.deepcopy(src))
                        verdict, why = _nonempty_verdict(cg, cfi, call, x)
                        ctx.instance("R01.11", cfi.where(call), f"{cfi.short} -> {fi.short}: {unparse(x)[:60]} non-empty: {verdict} ({why[:120]})")
                        if verdict == "no":
                            ctx.violation("R01.11", f"{cfi.short}->{fi.short}", f"{v} unbound when {unparse(x)} is empty", cfi.where(call),
                                          f"{cfi.short} calls {fi.short} with {unparse(x)} that may be empty: {why}; the loop `for {unparse(lp.target)} in "
                                          f"{unparse(lp.iter)[:50]}` then runs zero times and `{v}` is read unbound at {fi.where(r)} (UnboundLocalError "
                                          f"at encode time for a component whose text is an empty list, which construction accepts)")
                        elif verdict == "unknown":
                            ctx.gap("R01.11", why)
    ctx.extra["r01_11_loops_scanned"] = scanned
    if scanned < 100:
        raise AnalysisError(f"R01.11 scanned only {scanned} for-loops (over 100 confirmed in the package)")


def check(ctx: Ctx) -> None:
    pm = ctx.pm
    it = make_interp(pm)
    cg = CallGraph(pm)
    ctx.explain(
        "R01.1: abstract interpretation of UnifiedRTFEncoder.encode/_encode_multi_section/_encode_figure_only "
        "over string shapes (literals, integer atoms, escaped/raw text atoms, alternatives, loops); obligations: "
        "every alternative starts with '{\\rtf1', ends with '}', has brace delta 0 with prefix depth >= 1 in between. "
        "R01.2: symbolic counts of \\cellx and \\cell in the row emitter and the table encoders are equal polynomials; "
        "row control words occur as literals only in functions entered by the abstract run of the row emitter (those the pairing argument covers). R01.3: lexical fold (control word / parameter / text "
        "adjacency) over the document shapes. R01.4: element type of each attribute fed to a model field (keywords, incl. **mappings built from the source's literal tables) is "
        "assignable to that field. R01.5: results of optional-returning functions are tested before None-intolerant "
        "use on the encode call graph. R01.6: validator table = emitter table (see C19). R01.11: every `for` target that is read after its loop "
        "(tree order, bound nowhere else) is bound on every path: the iterated parameter is tested non-empty (truthiness/length test, not an "
        "`is None` test) at every call site whose constant arguments do not exclude the read, followed up the resolved call graph (bound 3).")
    ctx.assume("user text contains no unbalanced raw RTF metacharacters (the property's input restriction)")
    ctx.assume("TextContent._convert_special_chars adds only complete \\uc1\\uN* escapes (its body is analysed under C10)")
    ctx.assume("pydantic coerces constructor keywords to the declared field types")
    ctx.assume("R01.10: a component's text, when it is not None, is non-empty (an `is not None` guard counts as presence)")
    ctx.assume("PIL/polars/struct calls behave as documented; image helpers return (None, None) or two ints (checked syntactically)")
    ctx.undecided("R01.11 decides loop variables only (not names bound in one branch of an if); an emptiness test in a form other than "
                  "truthiness / len comparison ends in an analysis gap")
    ctx.undecided("absence of every run-time exception; numeric positivity/monotonicity of \\cellx values; zero-column grids whose "
                  "text object is a parameter of the constructing function (R01.10 leaves the presence obligation to the callers)")
    shapes = r01_1(ctx, it)
    r01_2(ctx, it)
    r01_3(ctx, shapes)
    r01_4(ctx)
    r01_5(ctx, cg)
    from .c19 import r19_6
    r19_6(ctx, rule="R01.6")
    # R01.7 \\u escapes are lexically valid: signed 16-bit range and fallback count (interval analysis shared with C10)
    from .c10 import ALL, find_escape_loop, r10_1_2
    for efi, eloop in find_escape_loop(ctx, cg):
        r10_1_2(ctx, efi, eloop, ((0, 0x10FFFF),))
    # R01.8 crash-freedom of the per-page border update: attribute blocks are tiled up to the page shape
    from .tablecore import broadcast_expansion
    broadcast_expansion(ctx, "R01.8")
    # R01.9 positive widths: a zero relative width divides by zero or yields \\cellx0 (validator boundary shared with C19)
    from .c19 import validators_for, _kind_ok, _weak_positive
    vs = validators_for(pm, "TableAttributes", "col_rel_width")
    okp = any(_kind_ok(pm, v, "positive", None)[0] for v in vs)
    ctx.instance("R01.9", vs[0].where() if vs else pm.cls("TableAttributes").path + ":0", f"col_rel_width validated strictly positive (<= 0 rejected): {okp}")
    if not okp:
        weak = next((w for w in (_weak_positive(v) for v in vs) if w), None)
        ctx.violation("R01.9", "TableAttributes.col_rel_width", "positivity " + (weak or "missing"), vs[0].where() if vs else pm.cls("TableAttributes").path + ":0",
                      "col_rel_width is not validated as strictly positive" + (f" (guard `{weak}`)" if weak else "") + ": a zero width is accepted and rtf_encode divides by zero or emits \\cellx0")
    dropped = sorted({f"{b}: {c}" for a, b, c in it.gaps if a == "stmt"})
    if dropped:
        ctx.gap("R01.1", f"the shape interpreter met statement kinds outside its subset on an output path ({dropped[0][:120]}); "
                         "their effect on the document is not modelled")
    r01_10(ctx)
    r01_11(ctx, cg)
    ctx.extra["functions_interpreted"] = len(it.calls_seen)
    ctx.extra["interpreter_gaps"] = sorted({f"{a}:{b}" for a, b, _ in it.gaps})[:20]
    if len(it.calls_seen) < 38:
        raise AnalysisError(f"only {len(it.calls_seen)} functions reached by the shape interpreter (38 confirmed)")
