"""Interval analysis of a per-character loop body: the loop variable's code point `cp` ranges over
[0, 0x10FFFF]; integer locals are tracked as affine forms a*cp+b (or opaque terms with a sound
interval range); branches on comparisons split the set of code points.  Result: for every path
through the body, the set of code points taking it and the pieces it appends to the accumulator.
No repository code is executed.
"""
from __future__ import annotations

import ast
from dataclasses import dataclass, field
from typing import Any

from .pm import unparse

MAXCP = 0x10FFFF


# ---------------------------------------------------------------- interval sets
def norm(iv):
    iv = sorted((lo, hi) for lo, hi in iv if lo <= hi)
    out = []
    for lo, hi in iv:
        if out and lo <= out[-1][1] + 1:
            out[-1] = (out[-1][0], max(out[-1][1], hi))
        else:
            out.append((lo, hi))
    return tuple(out)


def inter(a, b):
    out = []
    for l1, h1 in a:
        for l2, h2 in b:
            lo, hi = max(l1, l2), min(h1, h2)
            if lo <= hi:
                out.append((lo, hi))
    return norm(out)


def minus(a, b):
    cur = list(a)
    for l2, h2 in b:
        nxt = []
        for l1, h1 in cur:
            if h2 < l1 or l2 > h1:
                nxt.append((l1, h1))
                continue
            if l1 < l2:
                nxt.append((l1, l2 - 1))
            if h2 < h1:
                nxt.append((h2 + 1, h1))
        cur = nxt
    return norm(cur)


def union(a, b):
    return norm(list(a) + list(b))


def size(a):
    return sum(h - l + 1 for l, h in a)


def show(a):
    return " ∪ ".join((f"[{l:#x},{h:#x}]" if l != h else f"{{{l:#x}}}") for l, h in a) or "∅"


# ---------------------------------------------------------------- values
@dataclass(frozen=True)
class Lin:            # a*cp + b
    a: int
    b: int


@dataclass(frozen=True)
class Term:           # opaque integer term of cp with a sound range on the current cp set
    expr: str
    lo: int
    hi: int
    node: Any = field(compare=False, default=None)
    form: Any = field(compare=False, default=None)   # (const, ((kind, k, Lin), ...)) canonical sum


@dataclass(frozen=True)
class Char:           # the loop variable itself
    pass


@dataclass(frozen=True)
class Other:
    why: str
    dep: bool = True      # may depend on the loop character (False: provably independent of it)


@dataclass(frozen=True)
class U16:            # the bytes of char.encode("utf-16-be"): a sequence of 16-bit code units (big-endian, 2 bytes each)
    units: tuple


@dataclass(frozen=True)
class Str:            # a string built from pieces (value of a string-typed local or helper result)
    pieces: tuple


def rng(v, cps):
    """sound integer range of value v over code point set cps"""
    if isinstance(v, Lin):
        if not cps:
            return (0, -1)
        lo, hi = cps[0][0], cps[-1][1]
        a, b = v.a * lo + v.b, v.a * hi + v.b
        return (min(a, b), max(a, b))
    if isinstance(v, Term):
        return (v.lo, v.hi)
    if isinstance(v, int):
        return (v, v)
    return None


class Unsupported(Exception):
    pass


@dataclass
class Path:
    cps: tuple                      # code points taking this path
    env: dict
    pieces: list                    # appended to the accumulator on this path: ('char',) | ('lit', s) | ('num', value, node) | ('other', text)
    exits: str = "fall"
    ret: Any = None                 # pieces of the returned string (helper frames only, exits == 'return')


class LoopAnalyser:
    """symbolic execution of one loop body over cp"""

    MAX_CALL_DEPTH = 4

    def __init__(self, const_eval, loopvar: str, acc: str, resolver=None):
        self.const_eval = const_eval      # callable(ast expr[, frame]) -> python constant or raises
        self.loopvar = loopvar
        self.acc = acc
        # resolver(call node, frame) -> Callee | None : repository function a call denotes (helpers of the
        # loop body are analysed in place, so an extracted `_escape(cp)` is seen as if it had never been extracted)
        self.resolver = resolver
        self.frames: list = []            # callee frames being analysed (innermost last); [] = the loop's own function
        self.helpers_entered: list[str] = []
        # conditions whose truth could not be related to the code point: both branches were followed for the
        # whole set, so per-path code point sets are over-approximations from then on
        self.undecided: list[str] = []

    def branch(self, test, cps, env):
        try:
            return self.cond(test, cps, env)
        except Unsupported as e:
            txt = unparse(test)[:80]
            if txt not in self.undecided:
                self.undecided.append(txt)
            return cps, cps

    # ---- helper calls ------------------------------------------------------------------------------
    def call_pieces(self, n: ast.Call, cps, env):
        """[(cps, pieces)] for a call of a repository helper analysed in place, or None when the callee is
        not a repository function / lies outside the analysed subset (the caller then treats the call as an
        opaque computed value)"""
        if self.resolver is None or len(self.frames) >= self.MAX_CALL_DEPTH:
            return None
        callee = self.resolver(n, self.frames[-1] if self.frames else None)
        if callee is None:
            return None
        fn = callee.node
        fa = fn.args
        if fa.vararg or fa.kwarg or fa.kwonlyargs or any(isinstance(a, ast.Starred) for a in n.args) \
                or any(k.arg is None for k in n.keywords):
            return None
        params = [a.arg for a in list(fa.posonlyargs) + list(fa.args)]
        if callee.skip_first:
            params = params[1:]
        if len(n.args) > len(params):
            return None
        defaults = dict(zip(reversed(params), reversed(fa.defaults)))
        actual = dict(zip(params, n.args))
        for k in n.keywords:
            if k.arg not in params or k.arg in actual:
                return None
            actual[k.arg] = k.value
        # evaluate the arguments in the caller's frame (splitting the code point set where they branch)
        states = [(cps, {})]
        for prm in params:
            nxt = []
            for c, bound in states:
                if prm in actual:
                    vals = self.ev(actual[prm], c, env)
                elif prm in defaults:
                    self.frames.append(callee)
                    try:
                        vals = self.ev(defaults[prm], c, {})
                    finally:
                        self.frames.pop()
                else:
                    return None
                for c2, v in vals:
                    b2 = dict(bound)
                    b2[prm] = v
                    nxt.append((c2, b2))
            states = nxt
        out = []
        self.frames.append(callee)
        self.helpers_entered.append(callee.name)
        try:
            for c, bound in states:
                if not c:
                    continue
                saved = self.acc
                self.acc = "\0no-accumulator"
                try:
                    paths = self.run_from(fn.body, Path(c, bound, []))
                finally:
                    self.acc = saved
                for q in paths:
                    if q.exits == "return":
                        out.append((q.cps, q.ret))
                    elif q.exits == "exit":       # raise inside the helper: not modelled
                        raise Unsupported("helper raises")
                    else:
                        out.append((q.cps, [("other", "None", False)]))
        except Unsupported:
            return None
        finally:
            self.frames.pop()
        return out

    # expression -> list of (cps, value)
    def ev(self, n, cps, env):
        if isinstance(n, ast.Constant):
            return [(cps, n.value)]
        if isinstance(n, ast.Name):
            if n.id in env:
                return [(cps, env[n.id])]
            if n.id == self.loopvar and not self.frames:
                return [(cps, Char())]
            return [(cps, self._const(n))]
        if isinstance(n, ast.Attribute):
            return [(cps, self._const(n))]
        if isinstance(n, ast.Tuple):
            cur = [(cps, ())]
            for e in n.elts:
                cur = [(c2, vs + (v,)) for c, vs in cur for c2, v in self.ev(e, c, env)]
            return cur
        if isinstance(n, ast.Call) and isinstance(n.func, ast.Attribute) and n.func.attr == "encode" and n.args \
                and isinstance(n.args[0], ast.Constant) and isinstance(n.args[0].value, str) \
                and n.args[0].value.lower().replace("_", "-") in ("utf-16-be", "utf-16be"):
            # UTF-16 (big-endian, no BOM) bytes of the character: one code unit in the BMP, the surrogate pair beyond it
            out = []
            for c, v in self.ev(n.func.value, cps, env):
                if not isinstance(v, Char):
                    out.append((c, Other(unparse(n), self._depends(n, env))))
                    continue
                bmp = inter(c, ((0, 0xFFFF),))
                astral = minus(c, ((0, 0xFFFF),))
                if bmp:
                    out.append((bmp, U16((Lin(1, 0),))))
                if astral:
                    off = Lin(1, -0x10000)
                    hi = self._arith(ast.Add(), 0xD800, self._arith(ast.RShift(), off, 10, astral, n), astral, n)
                    lo = self._arith(ast.Add(), 0xDC00, self._arith(ast.BitAnd(), off, 0x3FF, astral, n), astral, n)
                    out.append((astral, U16((hi, lo))))
            return out
        if isinstance(n, ast.Call) and isinstance(n.func, ast.Name) and n.func.id == "len" and len(n.args) == 1 and "len" not in env:
            out = []
            for c, v in self.ev(n.args[0], cps, env):
                if isinstance(v, U16):
                    out.append((c, 2 * len(v.units)))
                elif isinstance(v, (tuple, str)):
                    out.append((c, len(v)))
                else:
                    out.append((c, Other(unparse(n), self._depends(n, env))))
            return out
        if isinstance(n, ast.Call) and isinstance(n.func, ast.Name) and n.func.id == "range" and 1 <= len(n.args) <= 3 \
                and not n.keywords and "range" not in env:
            cur = [(cps, ())]
            for a in n.args:
                cur = [(c2, vs + (v,)) for c, vs in cur for c2, v in self.ev(a, c, env)]
            out = []
            for c, vs in cur:
                if all(isinstance(v, int) and not isinstance(v, bool) for v in vs) and (len(vs) < 3 or vs[2] != 0) and len(range(*vs)) <= 16:
                    out.append((c, tuple(range(*vs))))
                else:
                    out.append((c, Other(unparse(n), self._depends(n, env))))
            return out
        if isinstance(n, ast.Call) and isinstance(n.func, ast.Attribute) and n.func.attr == "from_bytes" \
                and isinstance(n.func.value, ast.Name) and n.func.value.id == "int" and n.args:
            order = n.args[1] if len(n.args) > 1 else next((k.value for k in n.keywords if k.arg == "byteorder"), None)
            signed = next((k.value for k in n.keywords if k.arg == "signed"), None)
            out = []
            for c, v in self.ev(n.args[0], cps, env):
                if isinstance(v, U16) and len(v.units) == 1 and isinstance(order, ast.Constant) and order.value == "big" and signed is None:
                    out.append((c, v.units[0]))
                else:
                    out.append((c, Other(unparse(n), self._depends(n, env))))
            return out
        if isinstance(n, ast.Subscript):
            out = []
            if isinstance(n.slice, ast.Slice):
                if n.slice.step is not None:
                    return [(cps, Other(unparse(n), self._depends(n, env)))]
                lows = self.ev(n.slice.lower, cps, env) if n.slice.lower is not None else [(cps, 0)]
                for c1, lo in lows:
                    ups = self.ev(n.slice.upper, c1, env) if n.slice.upper is not None else [(c1, None)]
                    for c2, hi in ups:
                        for c3, v in self.ev(n.value, c2, env):
                            if isinstance(v, U16) and isinstance(lo, int) and (hi is None or isinstance(hi, int)):
                                top = 2 * len(v.units) if hi is None else min(hi, 2 * len(v.units))
                                if lo >= 0 and top >= lo and lo % 2 == 0 and top % 2 == 0:
                                    out.append((c3, U16(v.units[lo // 2: top // 2])))
                                    continue
                            if isinstance(v, (tuple, str)) and isinstance(lo, int) and (hi is None or isinstance(hi, int)):
                                out.append((c3, v[lo:hi]))
                                continue
                            out.append((c3, Other(unparse(n), self._depends(n, env))))
                return out
            for c1, idx in self.ev(n.slice, cps, env):
                for c2, v in self.ev(n.value, c1, env):
                    if isinstance(v, (tuple, str)) and isinstance(idx, int) and not isinstance(idx, bool) and -len(v) <= idx < len(v):
                        out.append((c2, v[idx]))
                    else:
                        out.append((c2, Other(unparse(n), self._depends(n, env))))
            return out
        if isinstance(n, ast.Call) and isinstance(n.func, ast.Name) and n.func.id == "divmod" and len(n.args) == 2 \
                and not n.keywords and "divmod" not in env:
            q = ast.copy_location(ast.BinOp(left=n.args[0], op=ast.FloorDiv(), right=n.args[1]), n)
            r = ast.copy_location(ast.BinOp(left=n.args[0], op=ast.Mod(), right=n.args[1]), n)
            return [(c2, (a, b)) for c, a in self.ev(q, cps, env) for c2, b in self.ev(r, c, env)]
        if isinstance(n, ast.Call) and isinstance(n.func, ast.Name) and n.func.id == "ord" and len(n.args) == 1:
            out = []
            for c, v in self.ev(n.args[0], cps, env):
                out.append((c, Lin(1, 0) if isinstance(v, Char) else Other("ord of non-loop value")))
            return out
        if isinstance(n, ast.Call) and isinstance(n.func, ast.Name) and n.func.id == "chr" and len(n.args) == 1 and not n.keywords \
                and "chr" not in env:
            # chr(ord(c)) is the iterated character itself; chr of anything else stays an opaque character-derived value
            out = []
            for c, v in self.ev(n.args[0], cps, env):
                if isinstance(v, Lin) and v.a == 1 and v.b == 0:
                    out.append((c, Char()))
                elif isinstance(v, int) and not isinstance(v, bool) and 0 <= v <= MAXCP:
                    out.append((c, chr(v)))
                else:
                    out.append((c, Other(unparse(n), True)))
            return out
        if isinstance(n, ast.Call) and isinstance(n.func, ast.Name) and n.func.id in ("int",) and len(n.args) == 1:
            return self.ev(n.args[0], cps, env)
        if isinstance(n, ast.IfExp):
            out = []
            t, f = self.branch(n.test, cps, env)
            if t:
                out += self.ev(n.body, t, env)
            if f:
                out += self.ev(n.orelse, f, env)
            return out
        if isinstance(n, ast.UnaryOp) and isinstance(n.op, ast.USub):
            return [(c, self._arith(ast.Sub(), 0, v, c, n)) for c, v in self.ev(n.operand, cps, env)]
        if isinstance(n, ast.BinOp):
            out = []
            for c1, l in self.ev(n.left, cps, env):
                for c2, r in self.ev(n.right, c1, env):
                    if isinstance(n.op, ast.Add) and any(isinstance(x, (Str, Char, str)) for x in (l, r)):
                        out.append((c2, Str(tuple(self._val_pieces(l, n.left) + self._val_pieces(r, n.right)))))
                    else:
                        out.append((c2, self._arith(n.op, l, r, c2, n)))
            return out
        if isinstance(n, ast.JoinedStr):
            return [(c, Str(tuple(pcs))) for c, pcs in self.pieces_of(n, cps, env)]
        if isinstance(n, ast.Call):
            res = self.call_pieces(n, cps, env)
            if res is not None:
                out = []
                for c, pcs in res:
                    if len(pcs) == 1 and pcs[0][0] == "num":
                        out.append((c, pcs[0][1]))
                    elif len(pcs) == 1 and pcs[0][0] == "char":
                        out.append((c, Char()))
                    elif pcs and all(pc[0] == "lit" for pc in pcs):
                        out.append((c, "".join(pc[1] for pc in pcs)))
                    else:
                        out.append((c, Str(tuple(pcs))))
                return out
        try:
            return [(cps, self._const(n))]
        except Unsupported:
            return [(cps, Other(unparse(n), self._depends(n, env)))]

    def _depends(self, n, env) -> bool:
        """does the expression mention the loop character or a local computed from it?"""
        for x in ast.walk(n):
            if isinstance(x, ast.Name):
                if x.id in env:
                    v = env[x.id]
                    if not (isinstance(v, (int, str, float, bool)) or v is None or (isinstance(v, Other) and not v.dep)):
                        return True
                elif x.id == self.loopvar and not self.frames:
                    return True
        return False

    def _const(self, n):
        try:
            v = self.const_eval(n, self.frames[-1]) if self.frames else self.const_eval(n)
        except Exception as e:
            raise Unsupported(f"non-constant name {unparse(n)}") from e
        return v

    def _arith(self, op, l, r, cps, node):
        def lin(x):
            if isinstance(x, Lin):
                return x
            if isinstance(x, bool):
                return None
            if isinstance(x, int):
                return Lin(0, x)
            return None
        L, R = lin(l), lin(r)
        if L and R:
            if isinstance(op, ast.Add):
                return _simp(Lin(L.a + R.a, L.b + R.b))
            if isinstance(op, ast.Sub):
                return _simp(Lin(L.a - R.a, L.b - R.b))
            if isinstance(op, ast.Mult) and (L.a == 0 or R.a == 0):
                k, x = (L.b, R) if L.a == 0 else (R.b, L)
                return _simp(Lin(x.a * k, x.b * k))
        rl, rr = rng(l, cps), rng(r, cps)
        if rl is None or rr is None:
            return Other(unparse(node))
        txt = unparse(node)
        if isinstance(op, (ast.BitOr, ast.BitAnd, ast.Mult)) and rl[0] == rl[1] and rr[0] != rr[1]:
            l, r, rl, rr = r, l, rr, rl          # commutative: put the constant operand on the right

        def form_of(x):
            if isinstance(x, Term):
                return x.form
            if isinstance(x, int) and not isinstance(x, bool):
                return (x, ())
            return None
        if isinstance(op, (ast.Add, ast.Sub)):
            fl, fr = form_of(l), form_of(r)
            form = None
            if fl is not None and fr is not None and (isinstance(op, ast.Add) or not fr[1]):
                sgn = 1 if isinstance(op, ast.Add) else -1
                form = (fl[0] + sgn * fr[0], tuple(fl[1]) + tuple(fr[1]))
            if isinstance(op, ast.Add):
                return Term(txt, rl[0] + rr[0], rl[1] + rr[1], node, form)
            return Term(txt, rl[0] - rr[1], rl[1] - rr[0], node, form)
        if rr[0] == rr[1]:
            k = rr[0]
            base = l if isinstance(l, Lin) else None
            if isinstance(op, ast.RShift) and k >= 0:
                return Term(txt, rl[0] >> k, rl[1] >> k, node, (0, (("floordiv", 1 << k, base),)) if base else None)
            if isinstance(op, ast.FloorDiv) and k > 0:
                return Term(txt, rl[0] // k, rl[1] // k, node, (0, (("floordiv", k, base),)) if base else None)
            if isinstance(op, ast.BitAnd) and k >= 0 and rl[0] >= 0:
                pow2 = (k + 1) & k == 0
                return Term(txt, 0, min(k, rl[1]), node, (0, (("mod", k + 1, base),)) if base and pow2 else None)
            if isinstance(op, ast.Mod) and k > 0:
                return Term(txt, 0, k - 1, node, (0, (("mod", k, base),)) if base else None)
            if isinstance(op, ast.LShift) and k >= 0:
                return Term(txt, rl[0] << k, rl[1] << k, node)
            if isinstance(op, ast.Mult):
                a, b = rl[0] * k, rl[1] * k
                return Term(txt, min(a, b), max(a, b), node)
            if isinstance(op, ast.BitOr) and k >= 0 and rl[0] >= 0:
                fl = form_of(l)
                if fl is not None and rl[1] < (k & -k if k else 1 << 62):
                    # the variable operand lies entirely below the lowest set bit of the constant: `|` is `+`
                    return Term(txt, rl[0] + k, rl[1] + k, node, (fl[0] + k, tuple(fl[1])))
                return Term(txt, max(rl[0], k), (1 << max(rl[1].bit_length(), k.bit_length())) - 1, node)
        return Other(txt)

    # condition -> (cps where true, cps where false)
    def cond(self, n, cps, env):
        if isinstance(n, ast.BoolOp):
            if isinstance(n.op, ast.And):
                t = cps
                for v in n.values:
                    t, _ = self.cond(v, t, env)
                return t, minus(cps, t)
            f = cps
            for v in n.values:
                _, f = self.cond(v, f, env)
            return minus(cps, f), f
        if isinstance(n, ast.UnaryOp) and isinstance(n.op, ast.Not):
            t, f = self.cond(n.operand, cps, env)
            return f, t
        if isinstance(n, ast.Compare):
            cur = cps
            left = n.left
            t_all = cps
            for op, right in zip(n.ops, n.comparators):
                t = self._cmp(left, op, right, t_all, env)
                t_all = t
                left = right
            return t_all, minus(cps, t_all)
        if isinstance(n, ast.Call) and isinstance(n.func, ast.Attribute) and n.func.attr == "isascii" and not n.args:
            vals = self.ev(n.func.value, cps, env)
            if all(isinstance(v, Char) for _, v in vals):
                t = inter(cps, ((0, 127),))
                return t, minus(cps, t)
        if isinstance(n, ast.Constant) and isinstance(n.value, bool):
            return (cps, ()) if n.value else ((), cps)
        raise Unsupported("condition " + unparse(n))

    def _cmp(self, l, op, r, cps, env):
        out = ()
        for c1, lv in self.ev(l, cps, env):
            for c2, rv in self.ev(r, c1, env):
                out = union(out, self._cmp_vals(lv, op, rv, c2, l, r))
        return out

    def _cmp_vals(self, lv, op, rv, cps, ln, rn):
        def lin(x):
            if isinstance(x, Lin):
                return x
            if isinstance(x, int) and not isinstance(x, bool):
                return Lin(0, x)
            return None
        L, R = lin(lv), lin(rv)
        if L is None or R is None:
            if isinstance(lv, Char) and isinstance(rv, str) and len(rv) == 1 and isinstance(op, (ast.Eq, ast.NotEq, ast.Lt, ast.LtE, ast.Gt, ast.GtE)):
                L, R = Lin(1, 0), Lin(0, ord(rv))
            elif isinstance(lv, Char) and isinstance(rv, (str, tuple, list, set, frozenset)) and isinstance(op, (ast.In, ast.NotIn)):
                pts = norm([(ord(ch), ord(ch)) for ch in rv if isinstance(ch, str) and len(ch) == 1])
                hit = inter(cps, pts)
                return hit if isinstance(op, ast.In) else minus(cps, hit)
            else:
                r1, r2 = rng(lv, cps), rng(rv, cps)
                if r1 is not None and r2 is not None and type(op) in _RANGE_CMP:
                    always, never = _RANGE_CMP[type(op)](r1, r2)
                    if always:
                        return cps
                    if never:
                        return ()
                raise Unsupported(f"comparison {unparse(ln)} ? {unparse(rn)}")
        a, b = L.a - R.a, L.b - R.b          # a*cp + b  OP 0
        if a == 0:
            truth = _cmp0(op, b)
            return cps if truth else ()
        if a < 0:
            a, b = -a, -b
            op = _flip(op)
        # cp OP -b/a
        from fractions import Fraction
        x = Fraction(-b, a)
        import math
        if isinstance(op, ast.Lt):
            hi = math.ceil(x) - 1
            return inter(cps, ((0, hi),))
        if isinstance(op, ast.LtE):
            return inter(cps, ((0, math.floor(x)),))
        if isinstance(op, ast.Gt):
            return inter(cps, ((math.floor(x) + 1, MAXCP),))
        if isinstance(op, ast.GtE):
            return inter(cps, ((math.ceil(x), MAXCP),))
        if isinstance(op, ast.Eq):
            return inter(cps, ((int(x), int(x)),)) if x.denominator == 1 else ()
        if isinstance(op, ast.NotEq):
            return minus(cps, ((int(x), int(x)),)) if x.denominator == 1 else cps
        raise Unsupported("comparison operator")

    # statements
    def run(self, body, cps, env=None) -> list[Path]:
        paths = [Path(cps, dict(env or {}), [])]
        for s in body:
            nxt = []
            for p in paths:
                if p.exits != "fall":
                    nxt.append(p)
                    continue
                nxt.extend(self.stmt(s, p))
            paths = nxt
        return paths

    def stmt(self, s, p: Path) -> list[Path]:
        if isinstance(s, (ast.Pass,)):
            return [p]
        if isinstance(s, ast.Expr):
            c = s.value
            if isinstance(c, ast.Call) and isinstance(c.func, ast.Attribute) and c.func.attr == "append" \
                    and isinstance(c.func.value, ast.Name) and c.func.value.id == self.acc and len(c.args) == 1:
                return self._acc_assign(c.args[0], p, replace=False)
            return [p]
        if isinstance(s, ast.Continue):
            return [Path(p.cps, p.env, p.pieces, "continue")]
        if isinstance(s, ast.Break):
            return [Path(p.cps, p.env, p.pieces, "break")]
        if isinstance(s, ast.Return) and self.frames:
            if s.value is None:
                return [Path(p.cps, p.env, p.pieces, "return", [("other", "None", False)])]
            return [Path(c, dict(p.env), list(p.pieces), "return", pcs) for c, pcs in self.pieces_of(s.value, p.cps, p.env)]
        if isinstance(s, (ast.Return, ast.Raise)):
            return [Path(p.cps, p.env, p.pieces, "exit")]
        if isinstance(s, ast.Assign) and len(s.targets) == 1 and isinstance(s.targets[0], (ast.Tuple, ast.List)) \
                and all(isinstance(t, ast.Name) for t in s.targets[0].elts):
            names = [t.id for t in s.targets[0].elts]
            if self.acc in names:
                raise Unsupported("accumulator overwritten: " + unparse(s)[:60])
            out = []
            for c, v in self.ev(s.value, p.cps, p.env):
                if not (isinstance(v, tuple) and len(v) == len(names)):
                    raise Unsupported("statement " + unparse(s)[:60])
                e = dict(p.env)
                e.update(zip(names, v))
                out.append(Path(c, e, list(p.pieces)))
            return out
        if isinstance(s, ast.Assign) and len(s.targets) == 1 and isinstance(s.targets[0], ast.Name):
            name = s.targets[0].id
            if name == self.acc:
                return self._acc_assign(s.value, p, replace=True)
            out = []
            for c, v in self.ev(s.value, p.cps, p.env):
                e = dict(p.env)
                e[name] = v
                out.append(Path(c, e, list(p.pieces)))
            return out
        if isinstance(s, ast.AnnAssign) and isinstance(s.target, ast.Name) and s.value is not None:
            return self.stmt(ast.Assign(targets=[s.target], value=s.value), p)
        if isinstance(s, ast.AugAssign) and isinstance(s.target, ast.Name):
            name = s.target.id
            if name == self.acc:
                if not isinstance(s.op, ast.Add):
                    raise Unsupported("accumulator updated with " + unparse(s))
                return self._acc_assign(s.value, p, replace=False)
            out = []
            for c0, cur in self.ev(s.target, p.cps, p.env):
                for c, v in self.ev(s.value, c0, p.env):
                    e = dict(p.env)
                    e[name] = self._arith(s.op, cur, v, c, s)
                    out.append(Path(c, e, list(p.pieces)))
            return out
        if isinstance(s, ast.For) and isinstance(s.target, (ast.Name, ast.Tuple)) and not s.orelse:
            # an inner loop over a sequence of statically known length (e.g. the code units of one character) is unrolled
            out = []
            for c, seqv in self.ev(s.iter, p.cps, p.env):
                if isinstance(seqv, str) and len(seqv) <= 8:
                    seqv = tuple(seqv)
                if not isinstance(seqv, tuple) or len(seqv) > 8:
                    raise Unsupported("statement " + unparse(s)[:60])
                live = [Path(c, dict(p.env), list(p.pieces))]
                done = []
                for elem in seqv:
                    nxt = []
                    for q in live:
                        e = dict(q.env)
                        if isinstance(s.target, ast.Name):
                            e[s.target.id] = elem
                        elif isinstance(elem, tuple) and len(elem) == len(s.target.elts) and all(isinstance(t, ast.Name) for t in s.target.elts):
                            e.update(zip([t.id for t in s.target.elts], elem))
                        else:
                            raise Unsupported("statement " + unparse(s)[:60])
                        for r in self.run_from(s.body, Path(q.cps, e, list(q.pieces))):
                            if r.exits in ("fall", "continue"):
                                nxt.append(Path(r.cps, r.env, r.pieces))
                            elif r.exits == "break":
                                done.append(Path(r.cps, r.env, r.pieces))
                            else:
                                done.append(r)
                    live = nxt
                out += live + done
            return out
        if isinstance(s, ast.If):
            t, f = self.branch(s.test, p.cps, p.env)
            out = []
            if t:
                out += self.run_from(s.body, Path(t, dict(p.env), list(p.pieces)))
            if f:
                out += self.run_from(s.orelse, Path(f, dict(p.env), list(p.pieces)))
            return out
        raise Unsupported("statement " + unparse(s)[:60])

    def run_from(self, body, p: Path) -> list[Path]:
        paths = [p]
        for s in body:
            nxt = []
            for q in paths:
                nxt.extend(self.stmt(s, q) if q.exits == "fall" else [q])
            paths = nxt
        return paths

    def _acc_assign(self, value, p: Path, replace: bool) -> list[Path]:
        # forms: acc += X ; acc = acc + X
        if replace:
            if isinstance(value, ast.BinOp) and isinstance(value.op, ast.Add) and isinstance(value.left, ast.Name) and value.left.id == self.acc:
                value = value.right
            else:
                raise Unsupported("accumulator overwritten: " + unparse(value))
        outs = []
        for c, pcs in self.pieces_of(value, p.cps, p.env):
            outs.append(Path(c, dict(p.env), list(p.pieces) + pcs))
        return outs

    def pieces_of(self, n, cps, env):
        """list of (cps, [pieces]) for a string expression"""
        if isinstance(n, ast.Constant) and isinstance(n.value, str):
            return [(cps, [("lit", n.value)])]
        if isinstance(n, ast.Call) and not (isinstance(n.func, ast.Name) and n.func.id in ("str", "ord", "int", "divmod")):
            res = self.call_pieces(n, cps, env)
            if res is not None:
                return res
        if isinstance(n, ast.JoinedStr):
            cur = [(cps, [])]
            for v in n.values:
                nxt = []
                for c, pcs in cur:
                    if isinstance(v, ast.Constant):
                        nxt.append((c, pcs + [("lit", str(v.value))]))
                    else:
                        for c2, sub in self.pieces_of(v.value, c, env):
                            nxt.append((c2, pcs + sub))
                cur = nxt
            return cur
        if isinstance(n, ast.BinOp) and isinstance(n.op, ast.Add):
            out = []
            for c1, a in self.pieces_of(n.left, cps, env):
                for c2, b in self.pieces_of(n.right, c1, env):
                    if len(a) == 1 and len(b) == 1 and a[0][0] == "num" and b[0][0] == "num":
                        out.append((c2, self._val_pieces(self._arith(n.op, a[0][1], b[0][1], c2, n), n)))   # integer addition
                    else:
                        out.append((c2, a + b))
            return out
        if isinstance(n, ast.Call) and isinstance(n.func, ast.Name) and n.func.id == "str" and len(n.args) == 1:
            return self.pieces_of(n.args[0], cps, env)
        if isinstance(n, ast.IfExp):
            t, f = self.branch(n.test, cps, env)
            out = []
            if t:
                out += self.pieces_of(n.body, t, env)
            if f:
                out += self.pieces_of(n.orelse, f, env)
            return out
        return [(c, self._val_pieces(v, n)) for c, v in self.ev(n, cps, env)]

    def _val_pieces(self, v, n) -> list:
        if isinstance(v, Char):
            return [("char",)]
        if isinstance(v, Str):
            return list(v.pieces)
        if isinstance(v, (Lin, Term)) or (isinstance(v, int) and not isinstance(v, bool)):
            return [("num", v, n)]
        if isinstance(v, str):
            return [("lit", v)] if v else []
        if isinstance(v, Other):
            return [("other", v.why, v.dep)]
        return [("other", unparse(n), True)]




_RANGE_CMP = {   # (lo1,hi1) OP (lo2,hi2) -> (holds for all values, holds for none)
    ast.Lt: lambda a, b: (a[1] < b[0], a[0] >= b[1]),
    ast.LtE: lambda a, b: (a[1] <= b[0], a[0] > b[1]),
    ast.Gt: lambda a, b: (a[0] > b[1], a[1] <= b[0]),
    ast.GtE: lambda a, b: (a[0] >= b[1], a[1] < b[0]),
    ast.Eq: lambda a, b: (a[0] == a[1] == b[0] == b[1], a[1] < b[0] or b[1] < a[0]),
    ast.NotEq: lambda a, b: (a[1] < b[0] or b[1] < a[0], a[0] == a[1] == b[0] == b[1]),
}


def _simp(l: Lin):
    return l.b if l.a == 0 else l


def _cmp0(op, b):
    return {ast.Lt: b < 0, ast.LtE: b <= 0, ast.Gt: b > 0, ast.GtE: b >= 0, ast.Eq: b == 0, ast.NotEq: b != 0}[type(op)]


def _flip(op):
    return {ast.Lt: ast.Gt(), ast.LtE: ast.GtE(), ast.Gt: ast.Lt(), ast.GtE: ast.LtE(), ast.Eq: ast.Eq(), ast.NotEq: ast.NotEq()}[type(op)]
