"""Static-analysis machinery for the rtflite properties C01-C20 (see DESIGN.md)."""
